# run plan + floors for C11 (loaded by checkcfg.py; helpers e1/e2 are in scope)
#
# parts of event::verif::c11::run (harness/daemon/c11.rs):
#   part=exh      all event sequences of length `depth` over the alphabet
#                 {PeerEstablished(p, any family subset), EorReceived(p,f), PeerWithdrawn(p), TimerExpired}
#                 for `peers` x `fams` (default 3 x 3 = 37 events), each run on a fresh
#                 RestartingDeferral + TableManager through the real glue, interleaved with
#                 insert_route calls; shard i of `nshards` takes the (first,second)-event pairs = i mod nshards
#   part=machine  same enumeration on the bare RestartingDeferral (outputs + is_completed judged)
#   part=conc     concurrent trials: 1-2 session threads insert/remove on hot prefixes while a third thread ends the
#                 deferral through the glue (2 and 4 shards, verif_hooks delay injection), judged at quiescence
#   part=rnd      random configurations / sequences up to 40 events, glue and PeerSession::process_effects modes,
#                 plus the early-session scenarios (a session established during the deferral stays up across the release)
_T = "event::verif::c11::run"
CFG = dict(
    level="exploration",
    rule="case = one judged step (event or insert_route) of one op history on the coupled RestartingDeferral + "
         "TableManager; a history is non-trivial when >=1 deferred family held back >=1 insert and was then "
         "released with a non-empty table; distinct by hash of (configuration, op list)",
    monitors=["held: no NlriChange of a deferred family reaches the registered peer channel (and insert yields no change) while a helper is pending",
              "release-iff: a family is released in the very step in which its last pending helper resolves (EOR / drop / re-established without it) or the timer fires, never earlier",
              "exactly-once: at release every held prefix is announced exactly once with its full path list; nothing is announced a second time afterwards",
              "held/initial-dump: the real PeerSession::on_established, run at points of the histories, sends no route of a family that must be held to the new session; "
              "a session that stays up across the release is sent every held prefix exactly once (early-session scenarios)",
              "concurrent (part=conc, judged at quiescence, valid for every linearisation): last NlriChange per prefix on the registered peer channel == the RIB's path list; "
              "held prefixes not touched by a concurrent thread announced exactly once; restarting flag cleared and no shard still deferring",
              "session ends inside the histories do what session_loop does to the tables (unregister_peer: GR families marked stale, the others dropped; "
              "not GR-eligible: all dropped; the next session uses a new Source): nothing of a held family is announced by it, and held/release/exactly-once/terminates keep being judged afterwards",
              "non-GR peers never block",
              "terminates: nothing pending => Global.selection_deferral (restarting flag) cleared, later inserts announced immediately on every shard; flag not cleared while a family must be held",
              "no panic"],
    assumptions=["TimerExpired is only fed while the glue holds a timer handle (Global.selection_deferral_timer is Some), as in the daemon",
                 "steps the statement does not define are not judged (counted as unjudged:*): End-of-RIB attributed to a helper that has not re-established; "
                 "a peer re-establishing with a family it already resolved or is not configured for; outstanding EOR for a family that is not deferred",
                 "in session mode End-of-RIB is only signalled for sessions that negotiated graceful restart (as rx_msg does)",
                 "thorough depth 5: coupled system over 3 peers x 2 families (22 events), bare machine over the full 3 x 3 alphabet (37 events)"],
    floor=dict(evaluations=4000000, nontrivial=20000,
               counters={"exhaustive:full:d4:p3f3:Glue:complete-shards": 10,
                         "machine:full:d4:complete-shards": 4, "machine:full:d4:sequences": 1874161,
                         "step:family-held": 800000, "insert:held-back": 900000,
                         "insert:announced-after-release": 70000, "insert:announced-non-deferred": 400000,
                         "release-by:eor": 2500, "release-by:withdrawn": 4000, "release-by:timer": 13000,
                         "release-by:est-nogr": 4000, "release-by:est-without-family": 12000,
                         "release:prefix-dumped": 60000, "release:multipath-prefix-dumped": 9000,
                         "terminates:judged": 11000, "flag-held:judged": 300000,
                         "random:session-mode": 400, "random:2-shards": 400,
                         "initial-dump:sessions": 25000, "initial-dump:released-prefix-sent": 12000,
                         "early-session:scenarios": 6,
                         "conc:trials": 1000, "conc:trials-2-shards": 400, "conc:trials-4-shards": 400,
                         "conc:overlapping-trials": 900, "conc:session-ops-between-shard-releases": 2500,
                         "conc:final-view-prefixes-agree": 20000, "conc:untouched-prefix-announced-once": 8000,
                         "conc:shard-probes-announced": 5000, "conc:session-flaps": 300,
                         # session ends on the table side (unregister_peer: drop / stale marking) inside the histories
                         "drop:sessions-gr-eligible": 6000, "drop:sessions-not-gr-eligible": 2500, "drop:sessions-without-gr": 1400,
                         "drop:held-family-shard-table-emptied-by-the-drop": 2000, "drop:held-family-shard-table-already-empty": 4500,
                         "drop:held-family-shard-table-shared": 2300, "drop:held-or-released-path-marked-stale": 5500,
                         "insert:held-back-after-drop-emptied-the-shard-table": 8000, "random:4-shards": 250}),
    # quick: coupled depth 4 over the full alphabet up to peer renaming (all peers configured alike),
    # bare machine depth 4 over every sequence, coupled depth 3 for asymmetric configurations, random
    quick=[e2("exh4", _T, 10, 300, part="exh", depth=4, cfg="full", nshards=10, sym=1),
           e2("mach4", _T, 4, 300, part="machine", depth=4, cfg="full", nshards=4),
           e2("exh3", _T, 2, 300, part="exh", depth=3, cfg="asym+chain", nshards=2),
           e2("sess3", _T, 2, 300, part="exh", depth=3, cfg="asym", mode="session", nshards=2),
           e2("rnd", _T, 2, 120, part="rnd", count=2500),
           e2("conc", _T, 2, 240, part="conc", count=2500)],
    # thorough: everything unreduced at depth 4, depth 5 on 3 peers x 2 families (coupled) and on the
    # full alphabet (bare machine)
    thorough=[e2("exh4", _T, 16, 1500, part="exh", depth=4, cfg="full+asym", nshards=16),
              e2("exh5", _T, 16, 1500, part="exh", depth=5, cfg="full", peers=3, fams=2, nshards=16, sym=1),
              e2("sess4", _T, 4, 1500, part="exh", depth=4, cfg="full", peers=3, fams=2, mode="session", nshards=4),
              e2("mach4", _T, 4, 1500, part="machine", depth=4, cfg="full+chain+asym+mixed", nshards=4),
              e2("mach5", _T, 16, 1500, part="machine", depth=5, cfg="full", nshards=16),
              e2("rnd", _T, 8, 60, part="rnd", count=100000000),
              e2("conc", _T, 8, 60, part="conc", count=100000000)],
)
