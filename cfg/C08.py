# run plan + floors for C08 (loaded by checkcfg.py; helpers e1/e2 are in scope)
CFG = dict(
    level="exploration",
    rule="case = one input (message, update-sent or timer expiry delivered by the virtual-time driver) judged by the oracle; "
         "non-trivial = the event happened after the OPEN exchange on a live session; distinct by hash(local hold, remote hold, "
         "role, timed event sequence up to and including the event)",
    monitors=["negotiated: after the OPEN exchange hold deadline = t+min(local,remote), keepalive deadline = t+min/3; "
              "SessionEstablished.remote_holdtime; keepalive timer expiry sends KEEPALIVE and re-arms at +min/3",
              "re-arm: hold deadline moves to t+negotiated on KEEPALIVE/UPDATE receipt and is unchanged by every other input",
              "expiry-iff: hold expiry happens exactly at last-received+negotiated and yields SessionDown(HoldTimerExpired); "
              "the keepalive timer never ends the session",
              "zero-disables: negotiated 0 => after the OPEN exchange no Set*Timer with a finite value, no leftover OpenSent "
              "hold timer, no timer-caused SessionDown",
              "collision (transcription): both roles of one peer behind the real ConnArbiter, each connection with the timers of its "
              "own task, outputs applied to the CALLING task's timers whatever role they name (as apply_outputs does); every "
              "connection - in particular the survivor of a collision - is judged by the same negotiated / re-arm / expiry / zero "
              "clauses (signatures C08/collision/...)",
              "no panic",
              "real-time part (c08b): plus 60 collision pairs whose SURVIVOR's remote end then stays silent (or sends one KEEPALIVE): "
              "Hold Timer Expired and the KEEPALIVE cadence of the survivor are judged like a single session's (C08/real/collision/...); "
              "real-time part (c08b): 240 real PeerSession::run tasks in parallel behind accept_connection over loopback, scripted "
              "remote ends, hold pairs from {3,4,6,9,0}x{3,5,9,0,30}, measured at the remote end with the monotonic clock: "
              "early expiry (Hold Timer Expired / close read less than negotiated-20ms after the remote STARTED writing its last "
              "KEEPALIVE/UPDATE/OPEN), any teardown or periodic KEEPALIVE with negotiated 0, NOTIFICATION != 4/0, and - only with "
              "the heartbeat proof that the runtime was responsive - no teardown after silence, expiry > 2 s late, more than "
              "keepalive+1.2 s without a KEEPALIVE/UPDATE from the daemon"],
    assumptions=["trusted base: VDriver in c08.rs transcribes apply_outputs / flush_tx / run_select timer handling "
                 "(one sleep per timer, replaced by now+n, hold polled before keepalive before socket, drained FuturesUnordered "
                 "yields once more)",
                 "timing before the OPEN exchange (the 240 s OpenSent hold timer) is not judged",
                 "an UPDATE sent may or may not restart the keepalive interval (statement silent); both accepted",
                 "a message arriving at exactly the hold deadline is delivered after the expiry (select_biased order)",
                 "real-time part: load makes things late, never early; 'early' verdicts rest on observed events and time stamps "
                 "taken before the remote's write; an early expiry after a re-arming message and every 'late' verdict additionally "
                 "need max heartbeat lag < 0.4 s (1 s for no-teardown) in the interval, else they are counted as unjudged; the script "
                 "keeps every hold deadline at least 1.2 s away",
                 "thorough tier: five real PeerSessions over loopback are compared with the model's prediction "
                 "(counters real-session:*); wall-clock, so they only confirm"],
    floor=dict(evaluations=100000, nontrivial=50000,
               counters={"clause:negotiated:open-exchange-nonzero": 5000, "clause:zero-disables:open-exchange-zero": 1000,
                         "clause:zero-disables:step": 3000, "clause:re-arm:rearming-input": 10000,
                         "clause:re-arm:non-rearming-input": 40000, "clause:expiry-iff:hold-fired": 15000,
                         "clause:negotiated:keepalive-fired": 30000, "reach:established": 4000,
                         "random:histories": 2000, "exhaustive:pair-role-combinations-completed": 20,
                         # real-time part
                         "real:sessions-finished": 150, "clause:real:expiry:observed": 80, "clause:real:zero:observed": 20,
                         "clause:real:keepalive-gap:observed": 80, "real:sessions:class-kept-alive": 40,
                         "real:sessions:class-silence": 25, "real:sessions:pair-9/3": 15, "real:sessions:pair-3/30": 8,
                         "real:sessions:open-sent-blind": 50, "real:expiry:notification-4-0": 80,
                         # collisions: transcription (two connections behind ConnArbiter) and real-time pairs
                         "collision:second-to-open-confirm-won": 1000, "collision:second-to-open-confirm-lost": 1000,
                         "collision:newcomer-vs-established": 1000, "collision:steps-judged-after-a-collision": 10000,
                         "collision:pair-id-combinations-completed": 8,
                         "real:collision:second-to-open-confirm-won": 8, "real:collision:second-to-open-confirm-lost": 8,
                         "real:collision:loser-read-cease": 30, "real:sessions:class-collision-survivor-silent": 15,
                         "real:sessions:class-collision-survivor-keepalive": 4}),
    quick=[e2("exh", "event::verif::c08::run", 4, 300, part="exhaustive", nshards=4, depth=6),
           e2("rnd", "event::verif::c08::run", 1, 180, part="random", random=10000),
           e2("col", "event::verif::c08::run", 1, 300, part="collision", depth=6),
           e2("rt", "event::verif::c08b::run", 1, 360, sessions=240, collisions=60, workers=4)],
    thorough=[e2("exh", "event::verif::c08::run", 16, 1200, part="exhaustive", nshards=16, depth=8),
              e2("rnd", "event::verif::c08::run", 4, 600, part="random", random=100000),
              # wall-clock cross-check of the VDriver transcription against real PeerSessions over
              # loopback (hold time 0 and 3); never a verdict, only confirms / flags an unfaithful model
              e2("real", "event::verif::c08::run", 1, 120, part="real"),
              e2("col", "event::verif::c08::run", 1, 1500, part="collision", depth=7),
              e2("rt", "event::verif::c08b::run", 2, 400, sessions=400, collisions=150, workers=4)],
)
