# run plan + floors for C04 (loaded by checkcfg.py; helpers e1/e2 are in scope)
_CLASSES = ["ipv4", "ipv6", "multicast", "labeled", "vpn", "evpn", "flowspec", "flowspec-vpn",
            "ls", "mup", "srpolicy", "rtc"]

CFG = dict(
    level="exploration",
    rule="case = one Message value (UPDATE Reach/Unreach over the 19 address families, OPEN, NOTIFICATION, KEEPALIVE, "
         "ROUTE-REFRESH, EOR) encoded by PeerCodec::negotiate(local,remote).encode_to for one ordered pair out of a pool of "
         "16 capability sets and judged by the independent framer/walker, the peer's codec negotiate(remote,local)+"
         "validate_message, and the decode∘encode fixed point; non-trivial = an UPDATE with >=1 prefix or an OPEN with >=1 "
         "capability; distinct by FNV-64 of (bytes written by encode_to, capability-set pair)",
    monitors=["frame header: 16x0xff marker, 19 <= len <= negotiated max (4096 / 65535 iff both sides sent Extended Message), type, "
              "frames fill the buffer exactly, frame count == return value",
              "UPDATE walker: withdrawn-routes length, total-path-attribute length, attribute TLVs (extended-length flag), "
              "MP_REACH / MP_UNREACH inner structure, per-SAFI NLRI framing, no duplicate attribute; OPEN walker: optional "
              "parameter and capability TLVs fill the frame",
              "wire-level accounting: multiset of (path-id, NLRI bytes) on the wire == input (no drop / duplicate / alien)",
              "peer decode: equal multiset of (prefix, path-id), equal next hop, equal attributes up to AS4 reconciliation / "
              "AS_TRANS, extended-length flag bit, attribute order",
              "fixed point: decode(encode(x')) == x' for every x' obtained by decoding (incl. hand-written wire forms)",
              "unrepresentable input (attribute block + one NLRI > frame, capability TLVs > 253 bytes): whole well-formed frames "
              "only, and every prefix on the wire or an error returned",
              "no panic (debug overflow checks and release wrapping both)"],
    assumptions=["inputs are values the daemon builds: path-id 0 when add-path tx is not negotiated, distinct (prefix, path-id) per "
                 "message, ORIGIN and AS_PATH present, no NEXT_HOP/MP_REACH/MP_UNREACH/AS4_* in the attribute list, attribute codes "
                 "unique, Flowspec next hop None, an IPv4 next hop only for AFI=1 / BGP-LS / EVPN families (an IPv4 next hop of an "
                 "IPv6-AFI family has no faithful wire form and is not generated)",
                 "families are only used on sessions where both capability sets announce them",
                 "labeled-unicast withdrawals are compared by prefix only (RFC 8277 2.4: the label field of a withdrawal is ignored)",
                 "AS_PATH with confederation segments and >16-bit ASNs over a 2-octet-AS session: only the non-confederation hops are "
                 "required to survive (RFC 6793 reconstruction is lossy there); counted as unjudged:*",
                 "the PARTIAL bit of AS_PATH/AGGREGATOR rebuilt for a 2-octet-AS session is not judged; a zero-entry UPDATE reading "
                 "as End-of-RIB is not judged",
                 "peer-side validate_message is called with is_ebgp=false so that no iBGP-only attribute is filtered"],
    floor=dict(evaluations=4000, nontrivial=3000,
               counters=dict({"update:%s:reach" % c: 40 for c in _CLASSES},
                             **{"update:%s:unreach" % c: 15 for c in _CLASSES},
                             **{"shape:split-over-frames": 800, "shape:4+frames": 100,
                                "shape:frame-within-64-of-limit": 800, "attr-block:near-limit": 400,
                                "attr-block:over-limit": 50, "class:unrepresentable": 300,
                                "attr:as-path-over-255-hops": 150, "attr:100+communities": 400, "attr:opaque": 700,
                                "attr:wide-as-on-2byte-session": 400, "session:two-byte-as": 1500,
                                "session:addpath-tx": 600, "session:max65535": 200, "session:max4096": 2500,
                                "size:Max": 700, "entries:0": 100, "entries:over-2-frames": 400,
                                "open": 500, "open:tlv-sum>253": 150, "open:tlv-sum-240..253": 80,
                                "notification": 100, "keepalive": 30, "route-refresh": 70, "eor": 70,
                                "wire-derived": 400, "wire-derived:flag-variants": 300,
                                "wire-derived:from-2byte-session": 200, "fixed-point-evals": 1500})),
    quick=[e1("all", "c04", "debug", 1, 120), dict(e1("all", "c04", "release", 1, 120), seed_offset=500)],
    thorough=[e1("dbg", "c04", "debug", 6, 200, scale=1.0),
              dict(e1("rel", "c04", "release", 8, 200, scale=1.0), seed_offset=100),
              dict(e1("asan", "c04", "release", 2, 200, flavor="asan", scale=0.1), seed_offset=200)],
)
