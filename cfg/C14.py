# run plan + floors for C14 (loaded by checkcfg.py; helpers e1/e2 are in scope)
CFG = dict(
    level="exploration",
    rule="case = (policy program loaded through the PolicyTable CRUD API, route) judged against a reference interpreter "
         "of the statement, or one step of a CRUD history; non-trivial = at least one statement of the program applied "
         "to the route (CRUD: the operation targeted a set / statement / policy that is still referenced); distinct by "
         "hash of (program text, route) / of the op list",
    monitors=["disposition / attributes (as sets of decoded values) / next hop == reference interpreter",
              "no panic in apply_import / apply_export / CRUD calls (debug and release arithmetic)",
              "a delete / replace / merge that targets a referenced set, statement or policy is refused",
              "after every CRUD op every live assignment the op did not target evaluates a fixed probe set as before",
              "a freshly built assignment evaluates as the named entities of the model table say",
              "every set / statement / policy an accepted CRUD op created or changed is evaluated at once (wrapped in "
              "throw-away zz-* entities) against the model's content, with routes aimed at added and removed prefix entries",
              "assignments built by accumulation (add after add / set / delete, delete-policies after add) evaluate as the "
              "policies they list, in the listed order, with an rpki-validation policy first / in the middle / last",
              "delete_policy(preserve_statements=true) removes no statement; no delete_policy removes a statement "
              "another policy still references"],
    assumptions=["conditions of later statements may see the attributes as modified by earlier passed statements or the "
                 "route as it entered the chain: either result is accepted",
                 "ALL on community / ext-community / large-community sets is judged only where 'every member of the set "
                 "is matched by the route' and 'every value of the route is matched by the set' agree",
                 "as-path patterns are judged on paths made of non-empty AS_SEQUENCE segments (plus empty / absent "
                 "AS_PATH); regex patterns, AS_SET / confederation segments under a pattern are not judged",
                 "MED add/sub outside 0..2^32-1, 'last-as' prepend without a leftmost AS, local-pref-eq 100 / med-eq 0 on "
                 "a route without the attribute, as-path-length on a route without AS_PATH, RPKI with an origin that is "
                 "not the tail of an AS_SEQUENCE, prefix sets on non-IP NLRI: not judged",
                 "next-hop 'unchanged' may restore the received next hop or leave the current one",
                 "a next-hop-in condition is decided by the forwarding (global) address of the route's next hop, also for the "
                 "IPv6 global + link-local form (GoBGP: Path.GetNexthop); a condition that lists only the link-local half "
                 "of that route's next hop is not judged; next hops after next-hop actions are compared in full (variant "
                 "and both halves)",
                 "the real evaluation is called the way the daemon calls it: the RpkiTable is passed to apply_import / "
                 "apply_export only when the assignment's needs_rpki flag is set (daemon/src/table_manager.rs:708, "
                 "daemon/src/event/mod.rs:3355), otherwise None; the reference interpreter always knows the VRPs",
                 "policy edits follow the daemon's protocol: a policy used by a per-peer assignment is refused by the "
                 "daemon before PolicyTable is called",
                 "order of policies after add_assignment and error codes of refused calls are not judged"],
    floor=dict(evaluations=30000, nontrivial=6000,
               counters={"unit:judged": 2500, "eval:judged": 3000, "crud:judged": 3000,
                         "clause:actions-accumulated": 1000, "clause:accept-by-statement": 1400,
                         "clause:reject-by-statement": 2000, "clause:default-disposition": 6000,
                         "path:has-empty-segment": 600, "path:over-255-hops": 300, "path:no-attribute": 300,
                         "path:zero-length": 500, "path:segment-type-1": 600, "path:segment-type-3": 600,
                         "path:segment-type-4": 500, "path:undefined-segment-type(api)": 50,
                         "route-source:wire-decoder": 4000, "route-source:attribute-api": 3000,
                         "crud:histories": 200, "crud:referenced:refused": 600,
                         "crud:op-on-unreferenced-entity": 900, "crud:live-assignment-rechecks": 6000,
                         "unit:option:as-path-set:all": 10, "unit:option:community-set:invert": 10,
                         "unit:option:prefix-set:invert": 15,
                         # prefix-set shapes: entries whose range starts / lies below their own length, default-route
                         # entries, routes shorter than / equal to / one bit longer than an entry on the same chain
                         "prefix:longer-entry-admits-route-length": 50,
                         "prefix:entry-range-starts-below-own-length": 900,
                         "prefix:entry-range-entirely-below-own-length": 400,
                         "prefix:zero-entry-v4": 250, "prefix:zero-entry-v6": 60,
                         "prefix:route-shorter-than-every-entry:on-chain": 250,
                         "prefix:route-equals-entry": 50, "prefix:route-one-bit-longer-than-entry": 35,
                         "prefix:cond-on-v6-route": 250,
                         # CRUD content probes: what an accepted op created / changed is evaluated at once
                         "crud:content-probes": 2000, "crud-probe:judged": 10000,
                         "crud:prefix:entry-removed": 60, "crud:prefix:default-route-entry-removed": 25,
                         "crud:policy:delete:ok": 25, "crud:policy:delete-statements:ok": 25,
                         # assignments built by several calls; rpki-validation conditions by route state
                         "eval:accumulated-assignments": 300, "eval-accumulated:judged": 2500,
                         "eval:accumulated:rpki-policy-listed-first": 100,
                         "eval:accumulated:rpki-policy-listed-in-the-middle": 60,
                         "eval:accumulated:rpki-policy-listed-last": 100, "crud:assignment:accumulated": 120,
                         "rpki:program-with-rpki-condition:route-state:Valid": 900,
                         "rpki:program-with-rpki-condition:route-state:Invalid": 2000,
                         "rpki:program-with-rpki-condition:route-state:NotFound": 3000,
                         "rpki:condition-state-equals-route-state": 2500,
                         # IPv6 next hops in the global + link-local form (RFC 2545)
                         "nexthop:route-with-global+link-local": 2000,
                         "nexthop:condition-on-global+link-local-route": 300,
                         "nexthop:condition-lists-the-global-of-a-global+link-local-route": 50,
                         "nexthop:action-in-program-on-global+link-local-route": 80,
                         "nexthop:unchanged-action-with-global+link-local-original": 15}),
    quick=[e1("all", "c14", "debug", 1, 120), e1("all", "c14", "release", 1, 120)],
    thorough=[e1("unit", "c14", "debug", 2, 200, part="unit"),
              e1("unit-rel", "c14", "release", 2, 200, part="unit"),
              e1("eval", "c14", "release", 6, 200, part="eval"),
              e1("eval-dbg", "c14", "debug", 2, 200, part="eval"),
              e1("crud", "c14", "debug", 4, 200, part="crud")],
)
