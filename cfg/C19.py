# run plan + floors for C19, packet-level half (loaded by checkcfg.py; helpers e1/e2 are in scope)
CFG = dict(
    level="exploration",
    rule="case = one monitoring event pushed through BmpCodec / MrtCodec / encode_table_dump and read back by "
         "independent RFC 7854/8671/9069 and RFC 6396/8050 structural readers; non-trivial = the record embeds at least "
         "one BGP PDU (OPEN/UPDATE/NOTIFICATION) or RIB entry that was parsed back with the repository's own parser and "
         "compared with the monitored content; distinct by FNV-64 of the emitted bytes (wall-clock MRT timestamp excluded)",
    monitors=["BMP common header: version 3, length == bytes of the message (stream of messages delimits exactly)",
              "BMP per-peer header: type, V flag == address family encoded, IPv4 zero-padded, L/O flags, RD, AS, BGP-ID, timestamp",
              "PeerUp: local address / ports, exactly two well-framed OPENs (+TLVs) that parse back to the sent / received OPEN",
              "PeerDown: reason code, data consistent with the reason, NOTIFICATION parses back (code, subcode, data)",
              "RouteMonitoring: exactly one UPDATE PDU whose own length fills the message; several messages per event allowed; "
              "union of PDUs parsed with the stated add-path setting == monitored (prefix, path-id) multiset, attributes, next hop",
              "BGP4MP: length == bytes that follow, AS field width and add-path-ness match the subtype (RFC 6396 / RFC 8050), AFI matches "
              "addresses, exactly one BGP message per record, content as above with the AS size the subtype states",
              "TABLE_DUMP_V2: peer count == peers written, type bits match address/AS sizes, entry count == entries written, "
              "peer index < peer count and pointing at the right peer, attribute lengths consistent, prefix fits the subtype AFI, "
              "attributes / next hop of every entry parse back (RFC 6396 4.3.4 abbreviated MP_REACH read independently)",
              "no panic in the codecs; bytes already queued in the output buffer untouched"],
    assumptions=["an event is judged only if a plain BGP session codec of the repository (PeerCodec::encode_to -> parse_message, "
                 "extended-message size, RFC 8950 for IPv4+IPv6-next-hop) round-trips its content; otherwise it is counted "
                 "unjudged:bgp-codec-unstable (C04's domain), e.g. IPv4 next hops of labeled/MUP/RTC/LS families that the BGP "
                 "encoder pads to 16 bytes, VPN next hops with a link-local part",
                 "OPENs have at most 253 bytes of capabilities (what can have been on the wire)",
                 "peer flags A (legacy 2-byte AS_PATH) and caller-supplied V are never set by the daemon and are not generated; "
                 "local and remote address of one session have the same family",
                 "BMP Stats / Termination / RouteMirroring are never emitted by the daemon: only their common header is judged",
                 "BGP4MP timestamp is the encoder's wall clock: read, not judged; BGP4MP_ET / state-change / RIB *_ADDPATH / "
                 "RIB_GENERIC records cannot be produced by the encoder and are therefore not exercised",
                 "sequence numbers / peer-index resolution are inputs at this level (daemon-side dump_table is the E2 half)"],
    floor=dict(evaluations=7000, nontrivial=5000,
               counters={"in:bmp-route-events": 2400, "in:bmp-nlri-exceed-4096-frame": 200,
                         "in:bmp-nlri-exceed-65535-frame": 15, "in:bmp-attrs-exceed-4096-frame": 30,
                         "in:bmp-ipv4-unicast-v6-nexthop": 60, "in:bmp-addpath": 800,
                         "in:mrt-route-events": 2000, "in:mrt-nlri-exceed-4096-frame": 150, "in:mrt-addpath": 700,
                         "in:mrt-as2-header": 300,
                         "bmp:peer-up": 500, "bmp:peer-up/v6": 150, "bmp:peer-down/reason-1": 70,
                         "bmp:peer-down/reason-3": 70, "bmp:peer-down/notification-with-data": 40,
                         "rm:peer-type/3": 400, "rm:flag-O": 400, "rm:flag-L": 500, "rm:peer-v6": 600,
                         "rm:kind/Eor": 350, "rm:family/ipv6": 500, "rm:family/evpn": 40, "rm:nexthop/v6+ll": 100,
                         "mrt:peer-v6": 400,
                         "td:peer-index-tables": 100, "td:rib-ipv4-unicast": 500, "td:rib-ipv6-unicast": 300,
                         "td:rib-multi-entry": 500, "td:rib-nonzero-peer-index": 700, "td:peers-written": 10000}),
    # the release shard gets other seeds than the debug shard (seed_offset) so the two explore different inputs
    quick=[e1("all", "c19", "debug", 1, 40), dict(e1("all", "c19", "release", 1, 40), seed_offset=500)],
    thorough=[e1("bmp", "c19", "release", 5, 200, part="bmp"),
              dict(e1("mrt", "c19", "release", 3, 200, part="mrt"), seed_offset=200),
              dict(e1("td", "c19", "release", 2, 200, part="td"), seed_offset=300),
              dict(e1("dbg", "c19", "debug", 4, 200, scale=0.25), seed_offset=100),
              dict(e1("asan", "c19", "debug", 2, 200, flavor="asan", scale=0.1), seed_offset=400)],
)
