# run plan + floors for C19: packet-level half (E1, src/bin/c19.rs) + daemon-side half (E2, daemon/c19b.rs = BMP, daemon/c19m.rs = MRT)
# (loaded by checkcfg.py; helpers e1/e2 are in scope)
CFG = dict(
    level="exploration",
    rule="case = one monitoring event pushed through BmpCodec / MrtCodec / encode_table_dump and read back by "
         "independent RFC 7854/8671/9069 and RFC 6396/8050 structural readers; non-trivial = the record embeds at least "
         "one BGP PDU (OPEN/UPDATE/NOTIFICATION) or RIB entry that was parsed back with the repository's own parser and "
         "compared with the monitored content; distinct by FNV-64 of the emitted bytes (wall-clock MRT timestamp excluded).  "
         "Daemon half: case = one BMP message / MRT record produced by the daemon's own converters, serve loops and dump_table from a "
         "populated TableManager or from real BGP sessions (read from a station socket / dump file), same non-triviality rule, "
         "distinct by FNV-64 of the embedded PDU / RIB entry bytes",
    monitors=["BMP common header: version 3, length == bytes of the message (stream of messages delimits exactly)",
              "BMP per-peer header: type, V flag == address family encoded, IPv4 zero-padded, L/O flags, RD, AS, BGP-ID, timestamp",
              "PeerUp: local address / ports, exactly two well-framed OPENs (+TLVs) that parse back to the sent / received OPEN",
              "PeerDown: reason code, data consistent with the reason, NOTIFICATION parses back (code, subcode, data)",
              "RouteMonitoring: exactly one UPDATE PDU whose own length fills the message; several messages per event allowed; "
              "union of PDUs parsed with the stated add-path setting == monitored (prefix, path-id) multiset, attributes, next hop",
              "BGP4MP: length == bytes that follow, AS field width and add-path-ness match the subtype (RFC 6396 / RFC 8050), AFI matches "
              "addresses, exactly one BGP message per record, content as above with the AS size the subtype states",
              "TABLE_DUMP_V2: peer count == peers written, type bits match address/AS sizes, entry count == entries written, "
              "peer index < peer count and pointing at the right peer, attribute lengths consistent, prefix fits the subtype AFI, "
              "attributes / next hop of every entry parse back (RFC 6396 4.3.4 abbreviated MP_REACH read independently)",
              "no panic in the codecs; bytes already queued in the output buffer untouched",
              "daemon BMP (c19b conv): adj_rib_in/out_to_bmp_update, loc_rib_to_bmp, loc_rib_peer_up, session_down_to_bmp through a "
              "session-long BmpCodec: per-peer header (type, V, L/O, AS, BGP ID, timestamp) + exactly one PDU + content == the change; "
              "apply_snapshot + flush_peer_snapshot: flushed routes == the RIB's Adj-RIB-In of the peer (pre / post), add-path setting == the "
              "session's, exactly one End-of-RIB per family with routes, after the routes",
              "daemon BMP (c19b e2e): the real daemon (event::main) + scripted BGP speakers + TCP listeners as BMP stations (every AddBmp "
              "policy): stream framing; PeerUp == the OPENs / addresses / ports that were really on the wire; PeerDown reason + NOTIFICATION "
              "== how the session really ended; RouteMonitoring parsed with the add-path setting the PeerUp's OPENs state and folded per "
              "(peer, view) == what the speakers announced (pre, post); Loc-RIB view made of announced routes; initial dump ends with End-of-RIB",
              "daemon MRT (c19m): MrtDumper::serve file == one BGP4MP record per Adj-RIB-In change (header AFI / addresses / AS vs the session, "
              "subtype vs AS width / add-path, one PDU, content == what was inserted); dump_table file: PEER_INDEX_TABLE peers == distinct "
              "sources of the RIB, RIB records == TableManager::collect_paths (each prefix once, entry count, peer index in range and pointing "
              "at the path's source, attributes + next hop parse back), sequence numbers increasing per subtype"],
    assumptions=["an event is judged only if a plain BGP session codec of the repository (PeerCodec::encode_to -> parse_message, "
                 "extended-message size, RFC 8950 for IPv4+IPv6-next-hop) round-trips its content; otherwise it is counted "
                 "unjudged:bgp-codec-unstable (C04's domain), e.g. IPv4 next hops of labeled/MUP/RTC/LS families that the BGP "
                 "encoder pads to 16 bytes, VPN next hops with a link-local part",
                 "OPENs have at most 253 bytes of capabilities (what can have been on the wire)",
                 "peer flags A (legacy 2-byte AS_PATH) and caller-supplied V are never set by the daemon and are not generated; "
                 "local and remote address of one session have the same family",
                 "BMP Stats / Termination / RouteMirroring are never emitted by the daemon: only their common header is judged",
                 "BGP4MP timestamp is the encoder's wall clock: read, not judged; BGP4MP_ET / state-change / RIB *_ADDPATH / "
                 "RIB_GENERIC records cannot be produced by the encoder and are therefore not exercised",
                 "sequence numbers / peer-index resolution are inputs at the packet level (daemon-side dump_table is the E2 half)",
                 "daemon half: Global / PeerSession cannot be constructed from daemon/src/bmp.rs, so serve() is reached by running the whole "
                 "daemon (event::main) over loopback; the Adj-RIB-In ground truth there is what the scripted speakers announced (no import "
                 "policy configured); attributes an eBGP receiver discards (LOCAL_PREF, RR attributes) are not sent by eBGP speakers",
                 "daemon half, not judged (counted unjudged:*): Adj-RIB-Out content (C09's), timestamps, a second PeerUp for a peer that is "
                 "already up, RouteMonitoring for a peer without PeerUp (peer went down during the station's snapshot phase), TABLE_DUMP_V2 "
                 "sequence numbers restarting at the IPv6 part, path ids of add-path peers in RIB_IPVx_UNICAST"],
    floor=dict(evaluations=7000, nontrivial=5000,
               counters={"in:bmp-route-events": 2400, "in:bmp-nlri-exceed-4096-frame": 200,
                         "in:bmp-nlri-exceed-65535-frame": 15, "in:bmp-attrs-exceed-4096-frame": 30,
                         "in:bmp-ipv4-unicast-v6-nexthop": 60, "in:bmp-addpath": 800,
                         "in:mrt-route-events": 2000, "in:mrt-nlri-exceed-4096-frame": 150, "in:mrt-addpath": 700,
                         "in:mrt-as2-header": 300,
                         "bmp:peer-up": 500, "bmp:peer-up/v6": 150, "bmp:peer-down/reason-1": 70,
                         "bmp:peer-down/reason-3": 70, "bmp:peer-down/notification-with-data": 40,
                         "rm:peer-type/3": 400, "rm:flag-O": 400, "rm:flag-L": 500, "rm:peer-v6": 600,
                         "rm:kind/Eor": 350, "rm:family/ipv6": 500, "rm:family/evpn": 40, "rm:nexthop/v6+ll": 100,
                         "mrt:peer-v6": 400,
                         "td:peer-index-tables": 100, "td:rib-ipv4-unicast": 500, "td:rib-ipv6-unicast": 300,
                         "td:rib-multi-entry": 500, "td:rib-nonzero-peer-index": 700, "td:peers-written": 10000,
                         # daemon half, BMP converters over a real TableManager (c19b conv)
                         "conv-pre:reach": 500, "conv-pre:withdraw": 140, "conv-pre:addpath": 190, "conv-pre:peer-v6": 280,
                         "conv-pre:ipv4-prefix-v6-nexthop": 60, "conv-pre:attrs-exceed-4096": 10, "conv-pre:family/evpn": 70,
                         "conv-pre:family/ipv4-vpn": 70, "conv-post:reach": 500, "conv-locrib:reach": 500, "conv-adjout:reach": 40,
                         "conv-many:multi-nlri": 5, "conv:snapshot-flush": 90, "conv:snapshot-eor": 290, "conv-snap-pre:reach": 360,
                         "conv-snap-post:reach": 360, "conv-snap-pre:addpath": 100, "conv:apply-snapshot-folds": 45,
                         "conv:peer-down/remote-notification": 12, "conv:peer-down/local-notification": 12,
                         "conv:locrib-peer-up/2-byte-as": 5,
                         # daemon half, real daemon + speakers + stations (c19b e2e)
                         "e2e:histories": 6, "e2e:sessions": 12, "e2e:stations": 18, "e2e:peer-up/from-global": 18, "e2e:peer-up/v6": 4,
                         "e2e:peer-up/loc-rib": 3, "e2e:peer-down/reason-1": 3, "e2e:peer-down/reason-3": 3, "e2e:peer-down/reason-4": 3,
                         "e2e:rm/pre": 5000, "e2e:rm/post": 4000, "e2e:rm/loc-rib": 2500, "e2e:rm/out-pre": 2000, "e2e:rm/peer-v6": 2500,
                         "e2e:rm/pdu-exceeds-4096": 120, "e2e:rib-view-compared/pre": 18, "e2e:rib-view-compared/post": 16,
                         "e2e:rib-view-compared/loc-rib": 4, "e2e:rib-view-compared/add-path-session": 15, "e2e:routes-compared": 10000,
                         "e2e:snapshot-with-eor/pre": 2, "e2e:snapshot-with-eor/post": 1, "e2e:station-connected-racing": 8,
                         "e2e:session-with-add-path": 5, "e2e:session-v6-peer": 2,
                         # daemon half, MRT (c19m)
                         "mrtd:serve-records": 3000, "mrtd:direct-records": 3000, "mrtd:bgp4mp-peer-v6": 1200, "mrtd:bgp4mp-addpath": 800,
                         "mrtd:bgp4mp-ipv4-prefix-v6-nexthop": 300, "mrtd:bgp4mp-attrs-exceed-4096": 80, "mrtd:bgp4mp-withdraw": 600,
                         "mrtd:bgp4mp-4-byte-peer-as": 1200, "mrtd:td-dumps": 40, "mrtd:td-peers-written": 200,
                         "mrtd:td-peer-table-with-v6-peer": 30, "mrtd:td-rib-ipv4": 300, "mrtd:td-rib-ipv6": 200,
                         "mrtd:td-rib-multi-entry": 300, "mrtd:td-rib-nonzero-peer-index": 450, "mrtd:td-rib-entries": 1100,
                         "mrtd:td-ipv4-prefix-v6-nexthop": 140}),
    # the release shard gets other seeds than the debug shard (seed_offset) so the two explore different inputs
    quick=[e1("all", "c19", "debug", 1, 120), dict(e1("all", "c19", "release", 1, 120), seed_offset=500),
           e2("bmpd", "bmp::verif::c19b::run", 1, 120), e2("mrtd", "mrt::verif::c19m::run", 1, 120)],
    thorough=[e1("bmp", "c19", "release", 5, 200, part="bmp"),
              dict(e1("mrt", "c19", "release", 3, 200, part="mrt"), seed_offset=200),
              dict(e1("td", "c19", "release", 2, 200, part="td"), seed_offset=300),
              dict(e1("dbg", "c19", "debug", 4, 200, scale=0.25), seed_offset=100),
              dict(e1("asan", "c19", "debug", 2, 200, flavor="asan", scale=0.1), seed_offset=400),
              dict(e2("bmpd", "bmp::verif::c19b::run", 4, 150), seed_offset=600),
              dict(e2("mrtd", "mrt::verif::c19m::run", 2, 150), seed_offset=700)],
)
