# run plan + floors for C12 (loaded by checkcfg.py; helpers e1/e2 are in scope)
CFG = dict(
    level="exploration",
    rule="cases = (VRP set, route prefix, origin derivation) evaluated on the real RpkiTable against a brute-force RFC 6811 oracle",
    monitors=["state == RFC6811(VRPs, route, origin)", "matched/unmatched lists == covering VRPs partitioned",
              "Condition::Rpki via apply_import agrees (single and accumulated assignments in both orders, the VRP table handed over only when the assignment says it needs it, as TableManager::apply_import does)", "iter() as multiset == set model after every op", "no panic"],
    assumptions=["VRP prefixes have clean host bits (what a conforming cache sends)",
                 "origin of an AS_SET-tailed path: RFC 6811 NONE or the local AS are both accepted (statement silent)",
                 "an empty per-family VRP table may report 'no result' instead of NotFound to the policy condition"],
    floor=dict(evaluations=100000, nontrivial=50000,
               counters={"shape:cover": 1000, "shape:more-specific-only": 1000, "shape:cover+sibling": 1000,
                         "route:off-byte": 1000, "policy-condition-evals": 1000, "policy-condition-evals-accumulated-assignment": 1000, "histories": 100}),
    quick=[e1("all", "c12", "debug", 1, 120), e1("all", "c12", "release", 1, 120)],
    thorough=[e1("exh", "c12", "debug", 6, 200, part="exhaustive"),
              e1("rnd", "c12", "release", 6, 200, part="random"),
              e1("hist", "c12", "debug", 4, 200, part="history"),
              e1("miri", "c12", "debug", 4, 200, flavor="miri", scale=0.002, part="random")],
)
