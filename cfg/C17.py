# run plan + floors for C17 (loaded by checkcfg.py; helpers e1/e2 are in scope)
CFG = dict(
    level="exploration",
    rule="cases = (a) one internal attribute / NLRI decoded by PeerCodec from a generated UPDATE (19 families, all attribute kinds), "
         "(b) one api::Attribute / api::Nlri message with arbitrary field values, (c) one add_path + list_path pair on the real GrpcService; "
         "non-trivial = (a) every decoded value, (b) messages the conversion ACCEPTED, (c) pairs whose add_path succeeded; "
         "distinct by hash of the value / message",
    monitors=["attr_from_api(attr_to_api(a)) == a for wire-decoded a (code, optional/transitive/partial flags, value)",
              "net_from_api(nlri_to_api(n), family) == n for wire-decoded n",
              "attr_from_api / net_from_api never panic on arbitrary messages",
              "every accepted value satisfies the wire decoder's acceptance rules (independent validator + re-decoding of its wire form)",
              "accepted values survive Table::insert next to a competing path, apply_import, export for 5 peer roles, encode_to, display",
              "add_path -> list_path(GLOBAL) shows the same NLRI, identifier, next hop and attributes modulo local_path's documented defaults"],
    assumptions=["flag bits that carry no content (extended-length, the 4 unused bits) are representation",
                 "the PARTIAL bit of recognised attributes, reserved TLV fields, BGP-LS values the GoBGP schema has no field for, "
                 "and RTC route targets that are not RT extended communities are not judged (counted as unjudged:*)",
                 "AS4_PATH / AS4_AGGREGATOR cannot be obtained from the wire decoder; their round trip is evaluated on constructed values",
                 "attributes local_path drops before the table (NEXT_HOP, MP_REACH, MP_UNREACH, ORIGINATOR_ID, CLUSTER_LIST) are validated but not 'used'",
                 "E2 runs in the debug profile only (overflow checks on); release arithmetic is not exercised by this check"],
    floor=dict(evaluations=60000, nontrivial=30000,
               counters={"rt:ok:strict": 40000, "rt:ok:nlri": 8000, "updates:l2vpn-evpn": 500, "updates:ls": 500,
                         "updates:ipv4-flowspec": 500, "updates:ipv6-vpn": 500, "updates:two-byte-as": 50,
                         "rt:attr:16": 800, "rt:attr:23": 400, "rt:attr:29": 400, "rt:attr:40": 400, "rt:attr:unknown": 400,
                         "b:attr-accepted": 3000, "b:attr-rejected": 2000, "b:attr-used": 3000,
                         "b:attr-in:Unknown": 1000, "b:attr-in:AsPath": 500, "b:attr-in:Origin": 300, "b:nlri-in:mutated": 5000,
                         "b:nlri-accepted": 2000, "b:nlri-rejected": 2000,
                         "c:added": 3000, "c:nexthop-checked": 2000, "c:origin-defaulted": 500, "c:as-path-defaulted": 500,
                         "c:submitted:l2vpn-evpn": 200, "c:submitted:ipv4-flowspec": 200, "c:submitted:ipv6-vpn": 200}),
    quick=[e2("all", "event::verif::c17::run", 2, 40)],
    thorough=[e2("a", "event::verif::c17::run", 4, 200, part="a"),
              e2("b1", "event::verif::c17::run", 5, 200, part="b1"),
              e2("b2", "event::verif::c17::run", 3, 200, part="b2"),
              e2("c", "event::verif::c17::run", 2, 200, part="c")],
)
