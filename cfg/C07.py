# run plan + floors for C07 (loaded by checkcfg.py; helpers e1/e2 are in scope)
# per (state, message kind, content variant) floors of the input-level part: every content variant of every
# message kind must have been judged in every state (the code may branch on the content before the state)
_VARIANTS = {
    "open": ["as-configured", "hold-time-0", "hold-time-65535", "no-four-octet-as-capability", "more-capabilities"],
    "open-wrong-as": ["wrong-as", "wrong-as-hold-time-0", "wrong-as-no-four-octet"],
    "open-rejected-by-parser": ["identifier-0", "hold-time-1", "identifier-multicast", "hold-time-2", "identifier-broadcast"],
    "update": ["end-of-rib-ipv4", "end-of-rib-ipv6-not-negotiated", "withdraw-ipv4-empty", "withdraw-vpnv4-not-negotiated",
               "reach-ipv4-no-attributes", "reach-ipv6-not-negotiated"],
    "notification-other": ["update-3-1", "header-1-2", "open-2-2", "hold-timer-4-0", "fsm-5-1", "cease-collision-6-7", "unknown-9-9"],
    "route-refresh": ["ipv4-unicast-advertised", "ipv6-unicast-not-advertised", "ipv4-vpn-not-advertised", "unknown-afi-safi",
                      "ipv4-unicast-subtype-borr", "ipv4-unicast-subtype-eorr", "afi-safi-0"],
}
_VARIANT_FLOORS = {"variant:%s:%s:%s" % (st, kind, v): fl
                   for st, fl in (("open-sent", 20000), ("open-confirm", 800), ("established", 40))
                   for kind, vs in _VARIANTS.items() for v in vs}

CFG = dict(
    level="exploration",
    rule="case = one step of one input history judged against the reference FSM; non-trivial = the input hit a live "
         "connection (slot not free) or was a connect that reached the FSM; distinct by hash(config, driver raw|arbiter, "
         "input sequence up to and including the step)",
    monitors=["path: OpenSent only by connect on a free slot, OpenConfirm only from OpenSent by an acceptable OPEN, "
              "Established only from OpenConfirm by KEEPALIVE; the other role never advances",
              "fsm-error: message not allowed in the state => SessionDown + NOTIFICATION 5/<RFC 6608 subcode of that state>",
              "idle: NOTIFICATION / hold expiry / disconnect / admin shutdown => SessionDown, state Idle, next connect accepted",
              "at-most-one: never both roles in OpenConfirm-or-Established",
              "collision: Established survives; else the connection initiated by the higher identifier; loser gets Cease 6/7 "
              "(via ConnArbiter's close channel when the loser is not the caller)",
              "OPENs with identifier 0/multicast/broadcast or hold time 1/2 are rejected by the real parser",
              "no panic",
              "real-task part (c07b): real accept_connection + PeerSession::run tasks over loopback TCP, both roles of one "
              "neighbour, scripted BGP remote ends, seeded interleavings on a current-thread runtime; judged at the remote ends "
              "at quiescence: (a) exactly one connection survives a collision, the loser reads NOTIFICATION 6/7 before EOF, the "
              "survivor is the Established one / the one initiated by the higher identifier; (b) never both remote ends in "
              "OpenConfirm-or-Established at quiescence; (c) after NOTIFICATION / FIN / RST / hold expiry a new connection of "
              "that role is accepted and gets an OPEN"],
    assumptions=["both OPENs of one history carry the same remote identifier",
                 "equal local and remote identifiers: any single survivor is accepted (statement names no winner)",
                 "an OPEN received outside OpenSent counts as a message not allowed in that state",
                 "the FSM-error NOTIFICATION 'carrying that state' is read as RFC 6608 subcodes 1/2/3",
                 "arbiter driver: accept_connection / apply_disconnect protocol emulated immediately after the step that ends a session "
                 "(the window between a collision and the loser task's apply_disconnect is not explored)",
                 "real-task part: every schedule produced is a legal schedule of the multi-threaded daemon (tasks interleave only "
                 "at awaits; the delay between tokio::spawn and the first poll of a session task is produced by holding the accepted "
                 "PeerSession back; a concurrent gRPC reader is represented by the script holding Global's read lock); quiescence = "
                 "no byte at a remote end and no FSM / close-channel / task change during 4 rounds of 50 scheduler turns + one "
                 "park in the I/O driver; harness time-outs make a scenario inconclusive, never a violation; a connection refused "
                 "while its predecessor of the same role is still winding down after a collision is not judged",
                 "refusing to make progress (e.g. tearing down on an acceptable OPEN) is counted as unjudged, not a violation; "
                 "floors on reach:* make such a run inconclusive"],
    floor=dict(evaluations=10000000, nontrivial=200000,
               counters={"reach:open-confirm": 20000, "reach:established": 800,
                         "collision:both-open-confirm": 100, "collision:newcomer-vs-established": 20,
                         "collision:loser-active": 40, "collision:loser-passive": 40,
                         "collision:cease-on-close-channel": 20, "collision:caller-lost": 40,
                         "fsm-error:open-sent": 50000, "fsm-error:open-confirm": 2000, "fsm-error:established": 100,
                         "idle:notification": 50000, "idle:hold-expiry": 20000, "idle:disconnect": 40000,
                         "idle:admin-shutdown": 20000,
                         "accept-after:notification": 3000, "accept-after:hold-expiry": 1000,
                         "accept-after:disconnect": 2000, "accept-after:admin-shutdown": 1000,
                         "accept-after:collision": 20, "accept-after:fsm-error": 3000,
                         "parser:bad-open-rejected": 100000, "random:histories": 4000,
                         **_VARIANT_FLOORS,
                         "exhaustive:config-driver-combinations-completed": 100,
                         # real-task part: the windows must really be produced
                         "real:scenarios": 100, "real:collisions-judged": 100, "real:loser-read-cease-collision": 60,
                         "real:established-survived-newcomer": 25,
                         "order:second-arrives:first-accepted-not-started": 8, "order:second-arrives:first-open-sent": 8,
                         "order:second-arrives:first-open-confirm": 6, "order:second-arrives:first-established": 8,
                         "order:teardown:other-accepted-not-started": 15, "order:teardown:other-open-sent": 12,
                         "order:teardown:other-open-confirm": 6,
                         "order:teardown:victim-open-sent": 10, "order:teardown:victim-open-confirm": 8,
                         "order:teardown:victim-established": 10,
                         "order:new-connection-after-collision:loser-task-still-running": 10,
                         "order:accept-during-teardown:ending-task-parked-before-peer-section": 15,
                         "order:successor-collides-as-non-caller": 25,
                         "real:reconnect-accepted-after:disconnect": 50, "real:reconnect-accepted-after:notification": 8,
                         "real:reconnect-accepted-after:hold-expiry": 2, "teardown-kind:HoldExpiry": 2}),
    quick=[e2("exh", "event::verif::c07::run", 8, 300, part="exhaustive", nshards=8, depth=4),
           e2("rnd", "event::verif::c07::run", 2, 180, part="random", random=10000),
           e2("real", "event::verif::c07b::run", 4, 450, scenarios=120, hold_expiry=2)],
    thorough=[e2("exh", "event::verif::c07::run", 16, 3000, part="exhaustive", nshards=16, depth=5),
              e2("rnd", "event::verif::c07::run", 4, 600, part="random", random=250000),
              e2("real", "event::verif::c07b::run", 6, 600, scenarios=400, hold_expiry=6)],
)
