# run plan + floors for C02 (loaded by checkcfg.py; helpers e1/e2 are in scope)
_STEPS = ["mac-mobility", "llgr-stale", "local-pref", "as-path", "origin", "ebgp", "gr-stale", "cluster-list", "router-id"]
CFG = dict(
    level="exploration",
    rule="case = one judged state of one prefix (IPv4 or EVPN type-2) of the real table::Table, after one op of a history or at "
         "the end of one arrival order; non-trivial = at least two eligible (unfiltered, next-hop-valid) paths compete; distinct "
         "by hash of (family, paths in arrival order with all decision-relevant attributes and stale marks)",
    monitors=["maximal: no eligible path beats the reported best under the reference order (ties legal)",
              "ranked: every reported list is non-decreasing and contains no filtered / next-hop-invalid / absent path, and is complete",
              "prefix: collect_loc_rib_paths_limited(N) is the N-prefix of the full ranking; ecmp_paths (IPv4) is exactly the "
              "leading run equal to the best on every step before router-id",
              "history-free: all arrival / re-marking orders of one path set report a best with the same reference key",
              "rs-local: the single path of destinations(TableQuery::RsLocal(peer)) is not beaten by any other RS client's unfiltered, next-hop-valid path (ties legal)",
              "no panic in any table operation (debug: overflow checks on)"],
    assumptions=["MAC-mobility sequence numbers are >= 1 when present (absent vs. sequence 0 is not fixed by the statement)",
                 "the MAC Mobility community counts wherever it stands among the extended communities; the sticky flag does not rank; "
                 "the same community twice = that sequence number; two MAC Mobility communities with different sequence numbers: not judged",
                 "ORIGIN is always present (mandatory attribute); LOCAL_PREF absent = 100",
                 "stale / LLGR-stale marks are only produced through restale / restale_llgr(+drop_no_llgr) as the daemon does, one Source per (session, family)",
                 "ECMP is judged for IPv4 only (the kernel FIB consumer); ListPath showing next-hop-invalid paths unmarked is not judged"],
    floor=dict(evaluations=120000, nontrivial=80000,
               counters=dict([("decided:" + s, 3000) for s in _STEPS] + [
                   ("decided:tie", 3000), ("matrix:complete-passes", 2), ("held:history-free", 300), ("perm:orders", 15000),
                   ("histories", 2400), ("observed:change:restale", 8000), ("observed:change:restale_llgr", 2000),
                   ("observed:change:drop_stale", 40), ("observed:change:drop_llgr_stale", 300),
                   ("observed:change:nexthop-validity", 5000), ("observed:change:remove", 2000), ("observed:change:drop", 1500),
                   ("state:has-aspath-over-255", 3000), ("ecmp:expected-run>=2", 2000), ("fam:evpn-type2", 40000),
                   ("state:mixed-eligible-ineligible", 60000), ("profile:debug", 1), ("profile:release", 1),
                   ("tie-histories", 2000), ("tie:disturb:restale", 3500), ("tie:disturb:restale_llgr", 1500),
                   ("tie:disturb:nexthop-flip", 1200), ("tie:disturb:filtered-replacement", 1500),
                   ("tie:follow-up-insert", 15000), ("tie:remove-best", 10000),
                   ("rs-local:judged-with>=2-candidates", 40000),
                   ("tie:disturb:reconnect", 1000), ("reannounce:over-stale-entry", 800), ("reannounce:after-purge", 300),
                   ("reannounce:same-arc", 600), ("reannounce:equal-content-new-arc", 600),
                   ("decided:mac-mobility:winner-mm-not-first-among-type6", 50000), ("state:evpn-mm-not-first-among-type6", 30000),
                   ("state:evpn-mm-sticky", 15000), ("state:evpn-mm-community-twice", 10000)])),
    # release shards get their own seeds (seed_offset) so the two profiles do not replay identical inputs
    quick=[e1("all", "c02", "debug", 2, 120), dict(e1("all", "c02", "release", 2, 120), seed_offset=500)],
    thorough=[e1("matrix", "c02", "debug", 2, 200, part="matrix"),
              dict(e1("matrix", "c02", "release", 2, 200, part="matrix"), seed_offset=500),
              e1("perm", "c02", "debug", 2, 200, part="perm"),
              dict(e1("perm", "c02", "release", 4, 200, part="perm"), seed_offset=500),
              e1("hist", "c02", "debug", 3, 200, part="history"),
              dict(e1("hist", "c02", "release", 3, 200, part="history"), seed_offset=500)],
)
