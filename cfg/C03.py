# run plan + floors for C03 (loaded by checkcfg.py; helpers e1/e2 are in scope)
CFG = dict(
    level="exploration",
    rule="case = one byte string delivered to one decoder (PeerCodec::try_parse + validate_message, RtrCodec::decode, "
         "bfd::Message::decode) under one negotiated codec in one fragmentation; non-trivial = the input got past the framing "
         "header checks; distinct by hash of (input bytes, codec / decoder)",
    monitors=["no-panic (catch_unwind + panic location, debug and release arithmetic)",
              "trichotomy: message / need-more / error that maps to a NOTIFICATION or a drop",
              "progress: a returned message consumed a whole number of frames; bounded decode loop, "
              "8 zero-consumption successes in a row = no-progress",
              "no-stall: a complete frame by the protocol's own length field is never answered with need-more; "
              "a length field below the header size is rejected, not waited on",
              "fragment-independence: fragmented and whole delivery give the same message sequence and end state",
              "attribute value decoders applied to received bytes later (tunnel_encap, prefix_sid, ls attr): no-panic"],
    assumptions=["RTR has no protocol maximum PDU size: waiting for a huge declared length is not judged",
                 "BFD reception checks of RFC 5880 6.8.6 beyond framing (detect mult 0, discriminator 0, A/M bits) are counted, not judged",
                 "acceptance of valid frames is not part of the statement: seeds the decoder rejects are listed in "
                 "coverage.baseline_not_accepted, not judged",
                 "a decoder call that never returns is a watchdog exit (inconclusive), never a violation; "
                 "only deterministic step bounds in the harness' own loop are violations"],
    floor=dict(evaluations=1000000, nontrivial=300000,
               counters={}),
    quick=[e1("q", "c03", "debug", 4, 40, nshards=4),
           e1("q", "c03", "release", 4, 40, nshards=4)],
    thorough=[e1("sys", "c03", "debug", 8, 240, nshards=8, part="bgp-systematic"),
              e1("sys", "c03", "release", 8, 240, nshards=8, part="bgp-systematic"),
              e1("rnd", "c03", "debug", 4, 120, nshards=4, part="bgp-random"),
              e1("rnd", "c03", "release", 4, 120, nshards=4, part="bgp-random"),
              e1("rtrbfd", "c03", "debug", 1, 120, part="rtr,bfd"),
              e1("rtrbfd", "c03", "release", 1, 120, part="rtr,bfd")],
)
