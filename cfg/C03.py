# run plan + floors for C03 (loaded by checkcfg.py; helpers e1/e2 are in scope)
_FAMS = ["ipv4", "ipv6", "ipv4-mc", "ipv6-mc", "ipv4-mpls", "ipv6-mpls", "ls", "ipv4-mup", "ipv6-mup", "ipv4-vpn",
         "ipv6-vpn", "ipv4-flowspec", "ipv6-flowspec", "ipv4-flowspec-vpn", "ipv6-flowspec-vpn", "ipv4-srpolicy",
         "ipv6-srpolicy", "l2vpn-evpn", "rtc"]
_COUNTERS = {
    # corpus: >= 24 negotiated codecs, seeds from both the repo encoder and hand-written templates
    "max:codecs": 24, "seed:from-encoder": 80, "seed:from-template": 80, "baseline:accepted": 150,
    "seed:rtr": 15, "seed:bfd": 2,
    # every mutation class reached
    "mut:len-field": 15000, "mut:len-pair": 20000, "mut:truncate": 30000, "mut:type-sweep": 20000,
    "mut:region-boundary": 40000, "mut:region-lead-sweep": 40000, "mut:region-window": 20000,
    "mut:attr-dup-reorder": 3000, "mut:extend": 1500, "mut:pad-to": 1000,
    "rand:splice": 8000, "rand:stream": 8000, "rand:framed-nlri-havoc": 20000, "rand:framed-attr-havoc": 8000,
    "rand:random-bytes": 3000,
    # both delivery modes and the clauses that decide
    "delivery:fragmented": 300000, "fragcmp:compared": 300000,
    "bgp:message": 400000, "bgp:error": 300000, "bgp:need-more": 1000000, "attr-value-decoder-calls": 80000,
    "rtr:message": 40000, "rtr:need-more": 300000, "mut-rtr:length": 400, "mut-rtr:type-sweep": 5000,
    "mut-rtr:truncate": 300, "bfd:message": 4000, "bfd:error": 5000, "mut-bfd:length": 400,
}
# the per-family NLRI decoder of every family returned entries
_COUNTERS.update({"decoded-nlri:" + f: 5000 for f in _FAMS})
# class "inner length beyond its legal range, enclosing lengths grown consistently, real bytes inserted":
# inputs per family whose NLRI-inner length field was grown that way (quick observes 300..4900), and per
# nested-TLV attribute / AS_PATH / OPEN / outer field
_COUNTERS.update({"grow-inner:" + f: 60 for f in _FAMS})
_COUNTERS.update({"grow-inner:ipv4-mup": 500, "grow-inner:ipv6-mup": 300, "grow-inner:l2vpn-evpn": 700, "grow-inner:ls": 900,
                  "grow-inner:ipv4-flowspec": 250, "grow-inner:ipv6-flowspec": 200, "grow-inner:ipv4-vpn": 150,
                  "grow-inner:tunnel-encap": 350, "grow-inner:prefix-sid": 180, "grow-inner:ls-attr": 500,
                  "grow-inner:as-path": 450, "grow-inner:aigp": 60, "grow:open": 130, "grow:outer": 12000,
                  "mut:grow-consistent": 20000, "grow:finished": 1})

CFG = dict(
    level="exploration",
    rule="case = one byte string delivered to one decoder (PeerCodec::try_parse + validate_message, RtrCodec::decode, "
         "bfd::Message::decode) under one negotiated codec in one fragmentation; non-trivial = the input got past the framing "
         "header checks; distinct by hash of (input bytes, codec / decoder)",
    monitors=["no-panic (catch_unwind + panic location, debug and release arithmetic)",
              "trichotomy: message / need-more / error that maps to a NOTIFICATION or a drop",
              "progress: a returned message consumed a whole number of frames; bounded decode loop, "
              "8 zero-consumption successes in a row = no-progress",
              "no-stall: a complete frame by the protocol's own length field is never answered with need-more; "
              "a length field below the header size is rejected, not waited on or accepted",
              "fragment-independence: fragmented and whole delivery give the same message sequence and end state",
              "mutation class grow-consistent: every nested length field (NLRI bit/byte lengths, EVPN/MUP route lengths and "
              "the lengths inside them, flowspec, BGP-LS TLVs, label stacks, AS_PATH counts, tunnel-encap / prefix-SID / "
              "LS-attribute / AIGP TLVs, capabilities) raised beyond its legal range with all enclosing lengths grown and real bytes inserted",
              "attribute value decoders applied to received bytes later (tunnel_encap, prefix_sid, ls attr): no-panic"],
    assumptions=["RTR has no protocol maximum PDU size: waiting for a huge declared length is not judged",
                 "BFD reception checks of RFC 5880 6.8.6 beyond framing (detect mult 0, discriminator 0, A/M bits) are counted, not judged",
                 "acceptance of valid frames is not part of the statement: seeds the decoder rejects are listed in "
                 "coverage.baseline_not_accepted, not judged",
                 "a NOTIFICATION whose data would exceed the maximum message size is counted (C04 territory), not judged",
                 "a decoder call that never returns is a watchdog exit (inconclusive), never a violation; "
                 "only deterministic step bounds in the harness' own loop are violations"],
    floor=dict(evaluations=800000, nontrivial=40000, counters=_COUNTERS),
    quick=[e1("q", "c03", "debug", 4, 120, nshards=4),
           e1("q", "c03", "release", 4, 120, nshards=4)],
    thorough=[e1("sys", "c03", "debug", 8, 240, nshards=8, part="bgp-systematic"),
              e1("sys", "c03", "release", 8, 240, nshards=8, part="bgp-systematic"),
              e1("rnd", "c03", "debug", 4, 120, nshards=4, part="bgp-random"),
              e1("rnd", "c03", "release", 4, 120, nshards=4, part="bgp-random"),
              e1("rtrbfd", "c03", "debug", 1, 120, part="rtr,bfd"),
              e1("rtrbfd", "c03", "release", 1, 120, part="rtr,bfd"),
              e1("asan", "c03", "release", 4, 150, flavor="asan", nshards=4, scale=0.25),
              e1("miri", "c03", "debug", 8, 400, flavor="miri", nshards=8, scale=0.0002)],
)
