# run plan + floors for C09 (loaded by checkcfg.py; helpers e1/e2 are in scope)
CFG = dict(
    level="exploration",
    rule="case = (cell = source kind {Ebgp,Ibgp,IbgpRrClient,RsClient,ConfedEbgp,local,kernel} x receiver role (5) x "
         "cluster config {none,default,explicit} x confederation {off,on} x echo, attribute presence vector, export-policy "
         "next-hop/MED action, non-add-path/add-path branch) run through the real process_nlri_change with a recording sink "
         "and judged by expected_export (written from the statement); plus LLGR stale-transition histories through the real "
         "TableManager, is_as_loop over every segment type/position, rx_update ORIGINATOR_ID/CLUSTER_LIST cases with RIB "
         "read-back, sessions whose role/cluster-id accept_connection derives from neighbour configuration, and batches of "
         "prefixes (colliding attribute sets / differing next hops, replacements, withdrawals) through the REAL sinks "
         "GroupedSink::into_messages and PendingTx::drain_messages, the UPDATEs flattened per (prefix, path id). "
         "non-trivial = a suppress rule applied, or the route was sent and its rewrite judged, or an inbound case that loops; "
         "distinct by hash of (cell, vector) / case parameters",
    monitors=["never sent back to the peer it was learned from (echo)",
              "never non-client iBGP -> non-client iBGP; never across the RS / non-RS boundary",
              "sent wherever none of those rules forbids it (unexpected-suppress)",
              "eBGP: confed segments removed, local AS / confederation id prepended exactly once (hop-list equality, also "
              "onto a full 255-AS segment), LOCAL_PREF/ORIGINATOR_ID/CLUSTER_LIST/AIGP/received MED removed, next hop self",
              "iBGP: LOCAL_PREF present (value kept), AS_PATH untouched, stored next hop of peer-learned routes untouched "
              "(the FULL next hop: V4 / V6 / V6LinkLocal incl. its link-local half, also IPv4 NLRI with IPv6 next hop)",
              "eBGP next hop self = local address; on an IPv6 session with link_addr the global + link-local form "
              "(RFC 2545 s.3), without link_addr the global address alone (no foreign link-local half survives)",
              "reflected routes: ORIGINATOR_ID (= source router-id if absent, else kept) and cluster-id prepended to CLUSTER_LIST; "
              "non-reflected routes gain neither",
              "confed-eBGP: member AS prepended in an AS_CONFED_SEQUENCE, LOCAL_PREF kept",
              "LLGR-stale source => LLGR_STALE community (also after a fresh->stale transition of an already advertised route), "
              "whatever an export policy (community add / replace / remove / replace-with-nothing, ext- and large-community, "
              "as-prepend, local-pref) did to the other communities; the per-role rewrite happens on top of the policy result",
              "unknown optional transitive => forwarded with Partial; unknown optional non-transitive => dropped",
              "export-policy next-hop action wins over the per-role default",
              "attributes the statement does not mention travel unchanged; no attribute twice; nothing appears from nowhere",
              "on the wire (GroupedSink / PendingTx): every (prefix, path id) carries exactly the (attributes, next hop) "
              "process_nlri_change exported for it and expected_export allows; none lost, duplicated or left stale",
              "is_as_loop == path contains local AS or (configured) confederation id",
              "rx_update installs a route iff ORIGINATOR_ID != router-id and CLUSTER_LIST does not hold the session's cluster-id",
              "role / cluster-id / confederation-id of an accepted session == what the neighbour configuration means",
              "no panic"],
    assumptions=["locally-originated / kernel routes towards RS clients: not judged (statement does not place them on a side)",
                 "RR-client roles combined with 'no cluster-id' (never produced by the daemon): send/suppress not judged",
                 "RS-client receivers: only filters, LLGR_STALE, unknown-attribute rule, policy next hop and pass-through judged",
                 "confed-eBGP receivers: MED, next hop, ORIGINATOR_ID/CLUSTER_LIST/AIGP not judged",
                 "MED under an export-policy MED action, and MED of locally-originated routes towards eBGP: not judged",
                 "next hop towards iBGP of locally-originated / next-hop-less routes, and towards eBGP of a locally injected "
                 "route with an explicit next hop (GoBGP-compatible third-party next hop): not judged",
                 "LLGR-stale routes towards peers without LLGR capability: not judged (statement silent)",
                 "a route that ARRIVED carrying LLGR_STALE from a source that is not itself LLGR-stale, under an export policy "
                 "that replaces / removes communities: whether the tag must survive (RFC 9494 s4.3 'MUST NOT be removed') is not "
                 "fixed by the statement's 'LLGR-stale routes' -- counted (open:received-llgr-stale-tag-*), not judged",
                 "NO_LLGR routes are deleted when their source goes LLGR-stale (drop_no_llgr), so an LLGR-stale route carrying "
                 "NO_LLGR is never generated",
                 "PeerExportContext.link_addr = Some is read as 'the peer shares the link' (RFC 2545 s.3 condition)",
                 "link-local half under set-next-hop address/self/peer-address policy actions, and link-local next hops "
                 "towards RS-client / confed-eBGP receivers: counted, not judged (the wire part still checks they are "
                 "carried exactly as handed to the sink)",
                 "the AS-loop drop itself sits in the socket read loop; only the is_as_loop predicate is judged",
                 "E2 runs the debug profile only (overflow checks on)"],
    floor=dict(evaluations=20000, nontrivial=15000,
               counters={"matrix:cells-run": 360,
                         "branch:add-path": 8000, "branch:non-add-path": 8000,
                         "clause:suppress:echo": 5000, "clause:suppress:rs-boundary": 2000,
                         "clause:suppress:split-horizon": 300, "clause:send": 6000,
                         "clause:reflect": 600, "clause:prepend-to-full255": 300, "clause:strip-confed": 800,
                         "clause:opaque": 3000, "clause:llgr": 2000, "clause:nexthop-self": 2000,
                         "clause:nexthop-untouched": 1000, "clause:policy-nexthop": 1500,
                         "rewrite:Ebgp": 1800, "rewrite:Ibgp": 1000, "rewrite:IbgpRrClient": 1500,
                         "rewrite:ConfedEbgp": 1800, "rewrite:RsClient": 300,
                         "as-loop:looping": 100, "rx-update:originator-loop": 20, "rx-update:cluster-loop": 20,
                         "llgr-history:receiver-holds-stale-route": 60, "derived:sessions": 5, "derived:cases": 100,
                         # real sinks end to end (GroupedSink::into_messages / PendingTx::drain_messages)
                         "wire:grouped:batches": 100, "wire:pending:batches": 100,
                         "wire:grouped:entries-judged": 1200, "wire:pending:entries-judged": 5000,
                         "wire:nexthop-judged": 3000, "wire:equal-attrs-different-nexthops": 600,
                         "wire:equal-nexthop-different-attrs": 600, "wire:attr-set-shared-by-several-prefixes": 700,
                         "wire:messages-with-several-prefixes": 400, "wire:input-same-arc": 1500,
                         "wire:input-different-arc": 1500, "wire:pending:replacements": 300,
                         "wire:pending:withdrawals": 400, "wire:pending:drains": 200,
                         "wire:add-path": 60, "wire:plain": 60,
                         "wire:receiver:Ibgp": 30, "wire:receiver:IbgpRrClient": 30, "wire:receiver:RsClient": 30,
                         "wire:receiver:Ebgp": 15, "wire:receiver:ConfedEbgp": 10,
                         # next-hop kinds: V4 / V6 / V6LinkLocal(global, link-local), IPv6 and IPv4-over-IPv6 sessions,
                         # receivers with and without link_addr
                         "nh-kind:v4": 12000, "nh-kind:v6": 3000, "nh-kind:v6-linklocal": 5500,
                         "nh-kind:v4-family-v6-nexthop": 3000, "nh-kind:v4-family-v6-linklocal-nexthop": 5500,
                         "nh-kind:none-v4-session": 3000, "nh-kind:none-v6-session": 3000,
                         "receiver-with-link-addr": 10000,
                         "clause:nexthop-self-global+link-local": 600, "clause:nexthop-self-v6-global-only": 600,
                         "clause:nexthop-self-over-stored-link-local": 700, "clause:nexthop-untouched-link-local": 800,
                         "clause:policy-unchanged-link-local": 250, "clause:extended-nexthop-v4-family": 3000,
                         "wire:session:ipv4": 20, "wire:session:ipv6": 30, "wire:session:ipv4-over-ipv6-nexthop": 20,
                         "wire:receiver-with-link-addr": 25, "wire:handed-link-local-nexthops": 2800,
                         "wire:link-local-nexthop-judged": 1500,
                         "wire:equal-attrs-equal-global-different-link-local": 340,
                         # attribute-rewriting export policies x LLGR-stale sources / received LLGR_STALE tags
                         "clause:rewrite-on-top-of-attribute-policy": 6000,
                         "clause:llgr-under-community-policy": 1100,
                         "clause:llgr-under-community-replace-or-remove": 650,
                         "clause:llgr-source-stale-and-tag-received": 750,
                         "policy:community-add": 700, "policy:community-replace": 700,
                         "policy:community-remove-incl-llgr-stale": 700, "policy:community-replace-with-nothing": 700,
                         "policy:community-remove": 700, "policy:ext-community-add": 700,
                         "policy:large-community-add": 700, "policy:as-prepend": 700, "policy:local-pref-set": 700,
                         "llgr-history:cases-with-community-policy": 40}),
    # every shard runs all 360 cells (covering set + random vectors from its own seed)
    quick=[e2("all", "event::verif::c09::run", 1, 120)],
    thorough=[e2("all", "event::verif::c09::run", 8, 200, random_per_cell=4000)],
)
