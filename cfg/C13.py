# run plan + floors for C13 (loaded by checkcfg.py; helpers e1/e2 are in scope)
CFG = dict(
    level="exploration",
    rule="one evaluation = one oracle judgement on the real RpkiClient::serve_inner fed by a conforming RTR cache model over tokio::io::duplex: "
         "an End-of-Data judgement (installed VRPs of the cache == fold of its responses), a progress judgement (client parked with every "
         "complete PDU consumed), an isolation judgement (other cache's VRPs untouched by a solo step), a session-end judgement (nothing of "
         "the cache left), or a try_connect cancellation judgement over loopback TCP. Non-trivial = an End-of-Data judgement whose response "
         "carried >=1 prefix PDU or whose previous fold was non-empty, or a session-end/cancel judgement with VRPs installed beforehand; "
         "distinct by FNV-64 of (phase, previous fold, raw response bytes) resp. (how the session ended, installed set)",
    monitors=["after each End of Data: collect_roa filtered by roa.source == fold(responses) as a set of (prefix, max-length, AS)",
              "client parked on read with all bytes taken => every complete PDU accounted for in RpkiState counters (else stall/<pdu-type>)",
              "solo step of cache A leaves collect_roa of cache B unchanged",
              "after serve_inner returned (EOF, mid-PDU loss, cancel) no VRP of the cache remains",
              "try_connect + cancel (DisableRpki/DeleteRpki path): no VRP of the cache remains once its socket is closed",
              "no panic in client / codec / table"],
    assumptions=["only conforming streams: announce only for a record the router does not hold, withdraw only for one it holds, at every point of the stream; reset responses carry announcements only",
                 "Serial Notify is sent only outside responses and never while a query is outstanding",
                 "a router that ignores Cache Reset or 'No Data Available' (no new Reset Query) is counted as unjudged:*, not judged (statement speaks about End-of-Data points only)",
                 "a v0 cache answers the client's v1 queries with v0 PDUs (RFC 8210 section 7, case 2)",
                 "two serve_inner tasks interleave at await points of one current-thread runtime (no OS-thread parallelism)"],
    floor=dict(evaluations=1500, nontrivial=400,
               counters={"streams": 100, "streams:two-caches": 30, "eod-judged:reset": 150, "eod-judged:incremental": 80,
                         "session-end-judged:with-vrps-installed": 100, "session-end:cancel": 30, "isolation-judged:other-has-vrps": 60,
                         "progress-checks": 500, "pdu-sent:ipv4-prefix": 1500, "pdu-sent:ipv6-prefix": 1000,
                         "pdu-sent:end-of-data-v0": 80, "pdu-sent:end-of-data-v1": 200, "pdu-sent:router-key": 40,
                         "pdu-sent:error-report": 30, "pdu-sent:cache-reset": 15, "pdu-sent:serial-notify": 150,
                         "shape:response-with-withdraw": 60, "drop:mid-pdu": 25, "frag:bytewise": 100,
                         "trigger:soft-reset": 40, "steps:concurrent": 50, "cancel-case-judged": 8}),
    quick=[e2("streams", "rpki::verif::c13::run", 2, 120)],
    thorough=[e2("streams", "rpki::verif::c13::run", 8, 200)],
)
