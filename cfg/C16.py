# run plan + floors for C16 (loaded by checkcfg.py; helpers e1/e2 are in scope)
CFG = dict(
    level="exploration",
    rule="E2 'accept': one evaluation = one judgement of one step of one history (admission of a real loopback TCP "
         "connection handed to accept_connection, zero bytes on a refused one, the accepted session's set-up against "
         "the configuration, the peer table after a session task finished); non-trivial = the connection was admitted "
         "or refused for a reason other than 'nothing configured at all' (configured neighbour up/down/already "
         "connected, inside / outside configured dynamic prefixes), a set-up that involves a peer group, or a "
         "dynamic-neighbour clean-up; distinct by hash(configuration text, loader, history so far). "
         "E2 'grmirror' / E1 'mirror': one evaluation = one pair of capability lists judged in one view; non-trivial = "
         "the lists share a family and carry an optional capability; distinct by hash of the two lists",
    monitors=["admission == reference predicate (configured & up & no connection of that direction | inside a dynamic "
              "prefix by own bit arithmetic), both roles, IPv4 127.x.y.z and ::1",
              "refused => accept_connection returns None and the client reads EOF after zero bytes",
              "set-up: role, local AS / OPEN AS / 4-octet AS capability, expected AS (also by sending OPENs from the "
              "configured and from another AS), hold time, families, add-path modes and send-max, GR (time, N bit, "
              "families), LLGR (families, times), prefix limits, export policy, cluster id, confederation id == the "
              "neighbour's configuration or what it inherits from its peer group (for overlapping dynamic prefixes: of "
              "some group whose prefix contains the address)",
              "GR / LLGR helper: remote ends mirror the GR (restart time 1 s, N bit or not) and LLGR capabilities of the "
              "session's OPEN, reach Established and end by RST, FIN, Cease NOTIFICATION, Hard-Reset NOTIFICATION, or are "
              "told to close by the daemon (disable / delete / update); the clean-up clause is judged at the end of the "
              "last connection whether or not that end starts helper mode",
              "dynamic clean-up: entry gone once the last connection's PeerSession::run task has finished; configured "
              "neighbours stay; peer table == configured neighbours at the end",
              "mirror: negotiate(L,R) vs negotiate(R,L) (raw, own-raw/peer-decoded, both decoded from real OPENs): same "
              "families, tx==rx, extended message / 4-octet AS / extended next hop / family / add-path direction in "
              "force iff both advertised it; negotiate_gr / negotiate_llgr family sets equal at both ends and in force "
              "iff both advertised; the FSM's effective send-max only where negotiate put add-path send in force",
              "re-configuration: UpdatePeer (one field or several: hold time, peer AS, local AS, passive, families, add-path "
              "receive / send-max, GR, LLGR, prefix limits, export policy, admin state, RS/RR-client flags) on an idle or "
              "connected neighbour and UpdatePeerGroup, each followed by a new session (first session after the update) "
              "judged with the set-up clauses against the NEW configuration; admin state after UpdatePeer read from the "
              "peer table",
              "concurrent: real gRPC configuration calls (Disable/Enable/Delete/Add/replace, delete/add/move dynamic "
              "prefix) race with accept_connection (multi-thread runtime; both queued behind a holder of the global "
              "lock, or free-running); at quiescence: an admin-down neighbour owns no registered connection that was "
              "never told to shut down, a session of a deleted / replaced neighbour was told to shut down and ends, an "
              "accepted session carries the parameters of one of the configurations that existed, refused => zero bytes",
              "no panic in accept_connection / PeerSession::run / negotiate / OPEN codec"],
    assumptions=["a session that stays up across an UpdatePeer (the handler decides: close channel still installed) keeps whatever "
                 "it has -- counted (update:session-kept), not judged; static members / live instances of a group that "
                 "was re-configured later are not judged (whether existing members follow is not said); an update the "
                 "handler refuses (RS/RR-client change) leaves the model unchanged",
                 "concurrent part: the overlap is produced by holding the global tokio RwLock from the harness while the "
                 "accept and the configuration call queue up (what any other handler does), no hook inside "
                 "accept_connection; overlaps are counted by sequence numbers taken at call start / return",
                 "judged at quiescence: after disconnect / disable / delete the harness waits for the session tasks to "
                 "finish (by task completion, 20 s watchdog = inconclusive); the one non-quiescent step is 'delete + "
                 "re-add while a connection is alive', after which only a duplicate-direction probe is judged",
                 "a configured neighbour that is down / already connected but also lies inside a dynamic prefix, a second "
                 "connection of an instantiated dynamic neighbour, inheritance of GR/LLGR by a neighbour that has its own "
                 "family list, a neighbour hold time equal to the default 180 next to a group value, explicit local-as "
                 "inside a confederation, role with peer-as 0 or route-server-client + same AS: not judged (counted)",
                 "peer-group prefix limits / policies are not generated: the configuration loader rejects group policies "
                 "and the PeerGroup model has no prefix-limit field",
                 "invalid add-path Send/Receive values are judged through the wire (the decoder drops them); what "
                 "negotiate makes of a raw invalid value is counted, not judged",
                 "which of several overlapping groups a dynamic neighbour gets is not prescribed by the statement"],
    floor=dict(evaluations=290000, nontrivial=70000,
               counters={"configurations": 1200, "connections": 12000,
                         "admission:expect-accept:configured-up-free": 2300,
                         "admission:expect-accept:dynamic-prefix": 2600, "admission:expect-refuse:admin-down": 710,
                         "admission:expect-refuse:duplicate-direction": 410,
                         "admission:expect-refuse:not-configured": 4500, "refused:drained": 7300,
                         "role:active": 3600, "role:passive": 8400, "addr:v6": 540,
                         "prefix-class:unaligned/clean": 890, "prefix-class:byte-aligned/dirty-host-bits": 220,
                         "prefix-class:len0/clean": 140, "prefix-class:host/clean": 100, "open:read": 4500,
                         "setup:judged:dynamic": 1900, "setup:judged:static": 1600,
                         "setup:judged:static-in-group": 930, "setup:with-addpath": 1900, "setup:with-gr": 1200,
                         "setup:with-llgr": 1500, "setup:with-prefix-limit": 590, "setup:with-export-policy": 680,
                         "setup:with-hold-time": 2500, "setup:in-confederation": 1100, "setup:role:Ibgp": 430,
                         "setup:role:IbgpRrClient": 270, "setup:role:RsClient": 690, "setup:role:ConfedEbgp": 130,
                         "setup:role:Ebgp": 2500, "drive:established": 1100, "drive:wrong-as-rejected": 390,
                         "cleanup:dynamic-checked:single-connection": 1600,
                         "cleanup:dynamic-checked:two-connections": 230, "cleanup:static-checked": 2200,
                         "final-peer-table-checked": 1000, "overlap:several-groups-contain-the-address": 480,
                         "op:disable": 1200, "op:enable": 1200, "op:delete": 1200, "op:add": 1400,
                         "op:replace-while-connected": 230, "loader:grpc": 600, "loader:toml": 590,
                         "mirror:gr-llgr-pairs": 32000, "mirror:gr-inforce": 16000, "mirror:llgr-inforce": 4700,
                         "mirror:send-max-in-force": 3200, "pairs": 80000, "wire:pairs": 80000,
                         "inforce:family": 240000, "inforce:addpath-direction": 29000,
                         "inforce:extended-message": 49000, "inforce:four-octet-as": 97000,
                         "inforce:extended-nexthop": 1300, "one-sided:extended-nexthop": 13000,
                         "shape:invalid-addpath-mode": 40000,
                         "conc:rounds": 560, "conc:overlapping-pairs": 450,
                         "conc:overlapping-pairs:behind-lock-holder": 450,
                         "conc:judged:session-of-admin-down-neighbour": 90,
                         "conc:judged:session-of-removed-neighbour": 110, "conc:judged:session-may-live": 190,
                         "conc:judged:setup": 190, "conc:closed-session-ended": 200,
                         "conc:kind:Disable": 140, "conc:kind:Delete": 80, "conc:kind:Replace": 80,
                         "op:update": 1300, "op:update-group": 440, "update:while-connected": 300,
                         "update:while-idle": 1000, "update:probe-session": 700, "update-group:probe-session": 200,
                         "update:session-kept": 80, "update:session-torn-down": 180, "update:one-field": 900,
                         "update:several-fields": 170, "update:admin-state-judged": 180,
                         "update:field:hold-time": 210, "update:field:peer-as": 95, "update:field:local-as": 90,
                         "update:field:passive": 120, "update:field:families": 120,
                         "update:field:addpath-receive": 60, "update:field:addpath-send-max": 130,
                         "update:field:graceful-restart": 60, "update:field:llgr": 60,
                         "update:field:prefix-limits": 50, "update:field:export-policy": 170,
                         "update:field:admin-state": 180, "update:refused:route-server-client": 70,
                         "update:refused:route-reflector-client": 65, "update-group:field:families": 55,
                         "update-group:field:hold-time": 110, "update-group:field:graceful-restart": 45,
                         "drive:established-with-gr-or-llgr": 600, "cleanup:dynamic-checked:after-gr-helper-start": 230,
                         "cleanup:dynamic-checked:gr-negotiated:tcp-reset": 180,
                         "cleanup:dynamic-checked:gr-negotiated:tcp-close": 30,
                         "cleanup:dynamic-checked:gr-negotiated:cease-notification": 30,
                         "cleanup:dynamic-checked:gr-negotiated:hard-reset-notification": 15,
                         "cleanup:dynamic-checked:gr-negotiated:told-by-the-daemon": 25,
                         "end:tcp-close": 900, "end:cease-notification": 140, "end:hard-reset-notification": 70}),
    quick=[e2("accept", "event::verif::c16::run", 4, 120, part="seq"),
           e2("conc", "event::verif::c16::run", 2, 120, part="concurrent"),
           e1("mirror", "c16", "debug", 1, 120),
           e1("mirror", "c16", "release", 1, 120)],
    thorough=[e2("accept", "event::verif::c16::run", 16, 400, part="seq"),
              e2("conc", "event::verif::c16::run", 4, 200, part="concurrent"),
              e1("mirror", "c16", "debug", 4, 200),
              e1("mirror", "c16", "release", 4, 200)],
)
