# run plan + floors for C10 (loaded by checkcfg.py; helpers e1/e2 are in scope)
#
# parts of event::verif::c10::run (harness/daemon/c10.rs):
#   part=l1x  L1, exhaustive: every sequence of `depth` letters over a 19-letter alphabet
#             {drop: tcp / hard reset / cease / UPDATE error / admin; reconnect: fails / same caps /
#              GR v4 only / no GR; re-announce; EOR v4; EOR v6; restart timer fires; LLGR timer v4 / v6
#              fires; forced down; late restart-timer handler; late LLGR-timer handler v4 / v6} after a prelude (session up, 4 routes incl. NO_LLGR and LLGR_STALE
#              ones, EOR), for 7 GR/LLGR configurations (one with Add-Path receive: three path ids per prefix); letters that do not apply in the current
#              state prune the branch; shard i of `nshards` takes the (config, 1st, 2nd letter) items = i mod nshards
#   part=l1c  L1, directed exhaustive: the first helper cycle is fixed (7 ways it can end: all timers run out, one LLGR
#             timer runs out then reconnect, End-of-RIB after a reconnect in the restart period, reconnect after the
#             restart timer ran out (LLGR period / purge), the same without End-of-RIB, non-GR drop of the re-established
#             session, forced down), the peer is back with routes, then every sequence of `depth` letters (2nd cycle)
#   part=l1r  L1, random histories (up to 24 ops, all drop reasons incl. hold-timer expiry) + directed
#             GR->LLGR->reconnect->EOR cycles
#             and "late handler" cycles (the expiry handler of a cancelled restart / LLGR timer runs at a later point:
#             after the reconnect, between re-announcements, after EOR, after a second drop, after the next reconnect)
#   part=l2   L2, the same generators against accept_connection + PeerSession::run over loopback TCP
#             (harness = remote speaker)
# Every l1 shard first calibrates its replica of the session_loop tail against L2 (see c10.rs `Replica`).
_T = "event::verif::c10::run"
CFG = dict(
    level="exploration",
    rule="case = one judged step (op applied, quiescence reached, RIB + timer slots + GrState observed before and after) "
         "of one op history; a history is non-trivial when a GR-eligible drop kept stale routes and at least one later "
         "step (timer expiry, End-of-RIB, reconnect, failed reconnect, second drop) was judged; distinct by hash of "
         "(layer, local configuration, op list)",
    monitors=["I1: paths of a previous session exist in family F => restart timer armed, or F's LLGR timer armed, or session re-established with GR for F and End-of-RIB for F not yet received",
              "I2: after a GR-eligible drop every path of the negotiated (GR or LLGR) families is kept and marked stale / LLGR-stale, every other family is empty",
              "I3: after hard reset / admin shutdown / non-Cease error / NOTIFICATION without N-bit no path of the peer survives, is_peer_restarting() is false, no timer is armed",
              "I4: after the restart timer's expiry stale paths of F remain only under F's LLGR timer; after F's LLGR timer or F's End-of-RIB none remain",
              "I5: a path announced on the live session is present after every later step (never removed by a purge)",
              "I6: a connection that ends before Established leaves armed restart / LLGR timers armed",
              "I7: no NO_LLGR path of the peer while its LLGR period runs",
              "no panic"],
    assumptions=["timer expiry is an event of the history (restart time 4095 s, LLGR time 10^6 s advertised; the timers are fired through PeerContext's one-shot senders)",
                 "a timer that was cancelled (not fired) may still have its expiry handler in flight (the task had left timeout() when the sender was dropped): "
                 "gr_restart_timer_expired / llgr_timer_expired may run once per cancelled timer at any later step; only the standing invariants I1, I5, I7 are judged at that step",
                 "quiescence = session task joined / sentinel-prefix barrier passed, and number of live timer tasks == number of armed slots",
                 "eligibility is decided from the statement: TCP failure must enter helper mode; hard reset, admin shutdown (API shutdown/reset, BFD), "
                 "message-header/OPEN/UPDATE/FSM-error NOTIFICATIONs (sent or received) and any NOTIFICATION without negotiated N-bit must not; "
                 "Cease (other than hard reset) and hold-timer expiry with N-bit: both outcomes accepted",
                 "not judged (counted unjudged:*): forced-down of an already-down peer that moves it from the restart period into the LLGR period; "
                 "routes removed early by a failed reconnect; is_peer_restarting() while only an End-of-RIB of an empty family is awaited",
                 "L1 reproduces the table calls of session_loop's tail and run()'s handling of never-established connections; the variant in use is the one "
                 "that behaves like the real code (L2) on calibration probes, else L1 is inconclusive",
                 "hold-timer expiry is exercised in L1 only; one peer, two families (IPv4/IPv6 unicast); Add-Path receive (path ids 0..3, AS_PATH-length ranks) in a third of the random configurations, one exhaustive configuration and the addpath-cycle profile"],
    # sized at about 1/5 of what the quick tier observes on the unchanged tree (seeds 1, 2)
    floor=dict(evaluations=100000, nontrivial=4000,
               counters={"l1x:complete-shards": 8, "l2:histories": 1200, "l2:steps-judged": 10000,
                         "l2:nontrivial-histories": 400, "l1:nontrivial-histories": 4000,
                         "I1:judged": 16000, "I1:by-restart-timer": 7000, "I1:by-llgr-timer": 2500, "I1:by-awaited-eor": 4000,
                         "I2:judged": 5000, "I2:family-kept-stale": 8000, "I2:other-family-judged": 1500,
                         "I3:judged-with-routes": 2500,
                         "I4:restart-timer:judged": 1000, "I4:llgr-timer:judged": 300, "I4:eor:judged": 600,
                         "I5:judged": 80000, "I6:judged": 800, "I7:judged": 3000,
                         "I7:no-llgr-route-dropped-at-llgr-start": 1200,
                         "op:reconnect-fail-before-open": 800, "op:reconnect-fail-after-open": 1400,
                         "op:restart-timer": 1000, "op:llgr-timer": 300, "op:force-down": 1200, "op:eor": 20000,
                         "drop:tcp-close": 5000, "drop:hard-reset": 1000, "drop:admin-shutdown": 1400,
                         "drop:non-cease-error": 1200, "drop:non-cease-error-nbit": 240,
                         "drop:notification-no-nbit": 1600, "drop:cease-nbit": 800,
                         "established:after-retention:gr-renegotiated": 2400, "established:after-retention:no-gr": 2000,
                         "obs:stale-paths-seen": 12000, "obs:llgr-stale-paths-seen": 3000,
                         # late timer handlers (gr_restart_timer_expired / llgr_timer_expired run after their timer was cancelled)
                         "op:late-restart-expiry": 1600, "op:late-llgr-expiry": 450,
                         "late:restart:in-reconnected": 700, "late:restart:in-idle": 800, "late:restart:in-restarting": 80,
                         "late:restart:in-llgr-staling": 5, "late:restart:with-stale-routes": 800,
                         "late:llgr:in-reconnected": 150, "late:llgr:in-idle": 280, "late:llgr:in-llgr-staling": 5,
                         "l2:profile:late-cycle": 200,
                         # second helper cycle of the same peer (state that outlives a cycle); timers that elapse by themselves
                         "l1c:complete-shards": 4, "op:restart-timer-natural": 4000, "op:llgr-timer-natural": 2000,
                         "cycle1-end:llgr-expiry": 800, "cycle1-end:eor": 7000, "cycle1-end:reconnect-during-llgr": 4500,
                         "cycle1-end:restart-expiry-without-llgr": 1500, "cycle1-end:forced-down": 1000,
                         "cycle2:entered": 3500, "cycle2:restart-expiry": 1100, "cycle2:llgr-period-entered": 1000,
                         "cycle2:llgr-expiry-purged": 500, "cycle2:eor-purged": 90,
                         "cycle2:llgr-period-entered-after:llgr-expiry": 260, "cycle2:llgr-period-entered-after:eor": 180,
                         "cycle2:llgr-period-entered-after:reconnect-during-llgr": 480,
                         "cycle2:llgr-period-entered-after:restart-expiry-without-llgr": 30,
                         "cycle2:llgr-period-entered-after:forced-down": 50,
                         "cycle2:entered-after:llgr-expiry": 330, "cycle2:entered-after:restart-expiry-without-llgr": 400,
                         "cycle3+:entered": 300,
                         # Add-Path receive: several path ids per prefix, part of them re-announced by the next session
                         "op:announce-extra-path-id": 25000, "op:withdraw-extra-path-id": 260,
                         "addpath:fresh-path-beside-stale-sibling": 2900,
                         "addpath:destinations-with-fresh-and-stale-siblings-at-purge": 1200,
                         "addpath:destinations-with-fresh-and-stale-siblings-at-purge:fresh-ranks-first": 1000,
                         "addpath:destinations-with-fresh-and-stale-siblings-at-purge:stale-ranks-first": 230,
                         "addpath:destinations-with-fresh-and-stale-siblings-at-purge:llgr-stale-sibling": 700,
                         "addpath:destinations-with-fresh-and-stale-siblings-at-purge:no-llgr-stale-sibling": 200,
                         "l2:addpath:mixed-sibling-purges": 60, "l2:profile:addpath-cycle": 240}),
    # l2 first: the driver keeps the first witness per signature, and an end-to-end witness is the most convincing one
    quick=[e2("l2", _T, 4, 240, part="l2", count=1500),
           e2("l1x", _T, 12, 400, part="l1x", depth=5, nshards=12),
           e2("l1c", _T, 4, 400, part="l1c", depth=3, nshards=4),
           e2("l1r", _T, 2, 240, part="l1r", count=8000)],
    thorough=[e2("l2", _T, 16, 300, part="l2", count=5000),
              e2("l1x", _T, 16, 900, part="l1x", depth=6, nshards=16),
              e2("l1c", _T, 8, 900, part="l1c", depth=4, nshards=8),
              e2("l1r", _T, 8, 300, part="l1r", count=100000)],
)
