# run plan + floors for C05 (loaded by checkcfg.py; helpers e1/e2 are in scope)
# packet-level half (engine E1): validate_message(try_parse(bytes), is_ebgp).
# end-to-end half (engine E2, harness/daemon/c05.rs): the same corrupted UPDATEs through the daemon's real
# receive path (socket: accept_connection + PeerSession::run over loopback TCP; direct: try_parse ->
# validate_message -> is_as_loop -> rx_msg on a new_for_test session), RIB read back with collect_paths.
CFG = dict(
    level="exploration",
    rule="case = (session kind [eBGP/iBGP/confed x 2-/4-octet AS x ADD-PATH], valid UPDATE template, recorded RFC 7606 fault list) "
         "-> corrupted UPDATE through PeerCodec::try_parse + validate_message; non-trivial = at least one fault that is not a mere "
         "reserved-bit / consistent-extended-length variation and at least one announced prefix; distinct by hash of (session kind, corrupted bytes). "
         "e2e case = (drive mode socket|direct, session kind, template, fault list, announced prefixes held from an earlier valid UPDATE or not) -> "
         "batch [cleanup, pre-install of the withdrawn (and optionally the announced) prefixes, corrupted UPDATE, sentinel UPDATE] on a real session, "
         "Adj-RIB-In read back at quiescence (sentinel visible / session task ended); same non-triviality rule; distinct by hash of "
         "(mode, session kind, held-before, corrupted bytes)",
    monitors=[
        "never-installs: no Reach for any announced prefix when a recorded fault (or an independent TLV walk of the bytes) demands treat-as-withdraw",
        "treat-as-withdraw: such prefixes, when locatable, come out as Unreach",
        "discard: a kept route does not carry the discardable-faulty attribute (nor AS4 data merged from it); duplicates: exactly one copy, the first",
        "duplicates with faulty copies (RFC 7606 3.g, the first occurrence alone decides): first copy faulty + non-discardable => never-installs / "
        "treat-as-withdraw whatever follows; first copy faulty + discardable => kept only WITHOUT that attribute (a valid later copy is never believed); "
        "first copy fine + later copy faulty => kept with the first, or withdrawn",
        "withdrawals-survive: legacy withdrawn routes and MP_UNREACH entries of the same message are in the result",
        "reset: Err(Notification) only when the engine damaged a length field / the attribute block / an MP attribute / NLRI octets",
        "ebgp-filter: no LOCAL_PREF / ORIGINATOR_ID / CLUSTER_LIST in any Reach when is_ebgp",
        "no panic (debug and release arithmetic)",
        "e2e never-installs: no prefix of a must-withdraw UPDATE is in the Adj-RIB-In with attributes of that UPDATE (also after a reset)",
        "e2e treat-as-withdraw: a locatable prefix held from an earlier valid UPDATE is GONE after the faulty UPDATE",
        "e2e discard: a stored path does not carry the discardable-faulty attribute (iBGP LOCAL_PREF: not the received value)",
        "e2e withdrawals-survive: prefixes withdrawn by the same message (pre-installed in the same batch) are gone; also judged for the fault-free template",
        "e2e reset: NOTIFICATION / close only when the engine damaged framing / TLV chain / an MP attribute / NLRI octets",
        "e2e ebgp-filter: no stored path from an external peer carries LOCAL_PREF / ORIGINATOR_ID / CLUSTER_LIST",
        "e2e ibgp-only-attr-believed: the same for a route-server client (external AS, route_server_client), on the valid template as well as on "
        "every corrupted variant; per role (ebgp, rs-client, ibgp, rr-client, confed-ebgp) the fate of each intact iBGP-only attribute is counted",
        "e2e update-before-established: an UPDATE between OPEN and KEEPALIVE leaves nothing in the RIB",
        "e2e no panic in the session task / rx_msg (JoinHandle error)",
    ],
    assumptions=[
        "all nine MP families plus IPv4 unicast are negotiated on the session; message <= 4096 octets",
        "flags faults that leave a known optional-transitive / discretionary attribute with wire flags 'optional non-transitive' may be discarded or withdrawn (statement readable both ways)",
        "Partial bit on a well-known / optional non-transitive attribute, reserved low flag bits and a consistent Extended Length encoding are not judged as faults (any outcome but a reset)",
        "ATOMIC_AGGREGATE / AGGREGATOR length errors and any LOCAL_PREF error from an external peer may be discarded (RFC 7606 7.5-7.7) or withdrawn",
        "when a changed length field still lets a plain TLV walk end exactly at the end of the attribute block, only panics, resets-with-reason and legacy withdrawals are judged",
        "a faulty or duplicated MP_REACH_NLRI / MP_UNREACH_NLRI may reset the session; its own NLRI are then not required to appear as withdrawals",
        "semantic NEXT_HOP values (0.0.0.0, multicast), AIGP inner TLVs and mismatched AS-number width inside AS_PATH are not generated",
        "e2e: one neighbour per test Global (eBGP AS 65002 / route-server client AS 65003 / iBGP and RR client AS 65001 / confederation member 64701 "
        "of confederation 65010), hold time 3600 s both sides, "
        "no import policy, no prefix limit, no GR; inbound loop rules (AS loop, ORIGINATOR_ID, CLUSTER_LIST) never trigger and are C09's",
        "e2e: a held route that stays untouched under discardable-only faults, routes under keys the template does not have (mis-parsed octets), "
        "and what is left of a peer after a reset (beyond 'not the faulty UPDATE's attributes') are counted, not judged",
        "e2e: when the harness's own valid withdraw-everything UPDATE does not empty the Adj-RIB-In (control), every case of that template gets a session of its own",
        "e2e: iBGP-only attributes from internal neighbours (iBGP, RR client) and from confederation members are only counted (stored / dropped): the statement "
        "speaks about external peers; RFC 5065 makes LOCAL_PREF legitimate inside a confederation and RFC 4456 / 7606 do not place members on either side",
        "e2e direct mode passes validate_message the reference notion of 'external peer' (it cannot exercise run_select's own expression); what run_select "
        "passes is judged by the socket mode",
        "e2e runs the debug profile only (overflow checks on)",
    ],
    floor=dict(
        evaluations=100000, nontrivial=25000,
        counters={
            "clause:never-installs:checked": 30000,
            "clause:discard:kept": 4000,
            "clause:discard:withdrawn": 2000,
            "clause:withdrawals:legacy-checked": 20000,
            "clause:withdrawals:mp-checked": 15000,
            "clause:ebgp-filter:reach-with-ibgp-attrs-in-input": 2500,
            "clause:reset:no-reset-needed-and-none": 40000,
            "outcome:reset-allowed": 10000,
            "fault:flags": 20000, "fault:len": 15000, "fault:omit": 6000, "fault:dup": 5000,
            "fault:unknown-wk": 8000, "fault:attrlen": 5000, "fault:lenfield": 5000, "fault:seg-zero": 3000,
            "fault:value": 3000, "fault:len-zero": 3000, "fault:dup-mp": 1000,
            # duplicate + fault on the first / the later / both copies of the same attribute
            "combo:dup+first-mustwithdraw": 2500, "combo:dup+first-discardable": 1500, "combo:dup+later": 3500,
            "combo:dup+both:first-mustwithdraw": 1000, "combo:dup+both:first-discardable": 600,
            "clause:dup-first-discardable:kept-without-attr": 1500, "clause:dup-later-faulty:kept": 5000,
            "fault:dup2-flags": 2000, "fault:dup2-len": 1500,
            "faults:2": 15000, "faults:3": 6000,
            "session:Ebgp": 25000, "session:Ibgp": 25000, "session:Confed": 12000, "session:as2": 25000, "session:as4": 35000,
            "scenario:mixed": 9000, "scenario:v4+wd": 9000, "scenario:mp+unreach": 9000,
            "family:V6": 4000, "family:Vpn4": 4000, "family:Vpn6": 4000, "family:Evpn": 4000,
            "family:Lab4": 4000, "family:Lab6": 4000, "family:Rtc": 4000, "family:V4Mc": 4000, "family:V4Mp": 3000,
            # end-to-end half (socket + direct shard, ~1/5 of what seed 1 shows at quick tier)
            "e2e:cases:socket": 800, "e2e:cases:direct": 2200, "e2e:control:ok:socket": 280, "e2e:control:ok:direct": 750,
            "e2e:clause:never-installs:checked": 1600, "e2e:clause:treat-as-withdraw:held-route-gone": 1700,
            "e2e:clause:discard:kept": 220, "e2e:clause:discard:withdrawn": 140,
            "e2e:clause:withdrawals:legacy-checked": 950, "e2e:clause:withdrawals:mp-checked": 590,
            "e2e:control:withdrawals-checked": 800,
            "e2e:clause:ebgp-filter:stored-with-ibgp-attrs-in-input": 100,
            "e2e:clause:reset:no-reset-needed-and-none": 2000, "e2e:outcome:reset-allowed": 570, "e2e:outcome:reset:notification": 570,
            "e2e:early-update:checked:socket": 15, "e2e:early-update:checked:direct": 40,
            "e2e:announced-prefixes-held-before": 1500,
            "e2e:session:Ebgp": 600, "e2e:session:Ibgp": 600, "e2e:session:Confed": 600,
            "e2e:session:RsClient": 600, "e2e:session:RrClient": 300,
            "e2e:ibgp-only:rs-client:5:observed": 140, "e2e:ibgp-only:rs-client:9:observed": 140, "e2e:ibgp-only:rs-client:10:observed": 140,
            "e2e:ibgp-only:ebgp:5:observed": 60, "e2e:ibgp-only:ebgp:9:observed": 60, "e2e:ibgp-only:ebgp:10:observed": 60,
            "e2e:ibgp-only:ibgp:5:observed": 250, "e2e:ibgp-only:ibgp:9:observed": 100, "e2e:ibgp-only:ibgp:10:observed": 100,
            "e2e:ibgp-only:rr-client:5:observed": 120, "e2e:ibgp-only:rr-client:9:observed": 70, "e2e:ibgp-only:rr-client:10:observed": 60,
            "e2e:ibgp-only:confed-ebgp:5:observed": 250, "e2e:ibgp-only:confed-ebgp:9:observed": 110, "e2e:ibgp-only:confed-ebgp:10:observed": 100,
            "e2e:session:as2": 1200, "e2e:session:as4": 1800, "e2e:session:addpath": 780,
            "e2e:family:V6": 200, "e2e:family:Vpn4": 200, "e2e:family:Vpn6": 200, "e2e:family:Evpn": 200, "e2e:family:Lab4": 200,
            "e2e:family:Lab6": 200, "e2e:family:Rtc": 200, "e2e:family:V4Mc": 200, "e2e:family:V4Mp": 150,
            "e2e:fault:flags": 900, "e2e:fault:len": 850, "e2e:fault:omit": 320, "e2e:fault:dup": 270, "e2e:fault:unknown-wk": 400,
            "e2e:fault:attrlen": 250, "e2e:fault:lenfield": 290, "e2e:fault:seg-zero": 160, "e2e:fault:value": 160,
            "e2e:faults:2": 800, "e2e:faults:3": 300,
            "e2e:combo:dup+first-mustwithdraw": 120, "e2e:combo:dup+first-discardable": 75, "e2e:combo:dup+later": 150,
            "e2e:clause:dup-first-discardable:kept-without-attr": 60,
        }),
    quick=[e1("all", "c05", "debug", 1, 120), e1("all", "c05", "release", 1, 120),
           e2("e2e-sock", "event::verif::c05::run", 1, 120, mode="socket"),
           e2("e2e-direct", "event::verif::c05::run", 1, 120, mode="direct")],
    thorough=[e1("dbg", "c05", "debug", 8, 200),
              dict(e1("rel", "c05", "release", 8, 200), seed_offset=100),
              dict(e1("miri", "c05", "debug", 2, 120, flavor="miri", scale=0.001), seed_offset=200),
              dict(e2("e2e-sock", "event::verif::c05::run", 4, 150, mode="socket"), seed_offset=300),
              dict(e2("e2e-direct", "event::verif::c05::run", 4, 150, mode="direct"), seed_offset=400)],
)
