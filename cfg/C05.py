# run plan + floors for C05 (loaded by checkcfg.py; helpers e1/e2 are in scope)
# packet-level half (engine E1): validate_message(try_parse(bytes), is_ebgp).
# The end-to-end half (rx_msg -> RIB) is a separate E2 module, not part of this plan yet.
CFG = dict(
    level="exploration",
    rule="case = (session kind [eBGP/iBGP/confed x 2-/4-octet AS x ADD-PATH], valid UPDATE template, recorded RFC 7606 fault list) "
         "-> corrupted UPDATE through PeerCodec::try_parse + validate_message; non-trivial = at least one fault that is not a mere "
         "reserved-bit / consistent-extended-length variation and at least one announced prefix; distinct by hash of (session kind, corrupted bytes)",
    monitors=[
        "never-installs: no Reach for any announced prefix when a recorded fault (or an independent TLV walk of the bytes) demands treat-as-withdraw",
        "treat-as-withdraw: such prefixes, when locatable, come out as Unreach",
        "discard: a kept route does not carry the discardable-faulty attribute (nor AS4 data merged from it); duplicates: exactly one copy, the first",
        "withdrawals-survive: legacy withdrawn routes and MP_UNREACH entries of the same message are in the result",
        "reset: Err(Notification) only when the engine damaged a length field / the attribute block / an MP attribute / NLRI octets",
        "ebgp-filter: no LOCAL_PREF / ORIGINATOR_ID / CLUSTER_LIST in any Reach when is_ebgp",
        "no panic (debug and release arithmetic)",
    ],
    assumptions=[
        "all nine MP families plus IPv4 unicast are negotiated on the session; message <= 4096 octets",
        "flags faults that leave a known optional-transitive / discretionary attribute with wire flags 'optional non-transitive' may be discarded or withdrawn (statement readable both ways)",
        "Partial bit on a well-known / optional non-transitive attribute, reserved low flag bits and a consistent Extended Length encoding are not judged as faults (any outcome but a reset)",
        "ATOMIC_AGGREGATE / AGGREGATOR length errors and any LOCAL_PREF error from an external peer may be discarded (RFC 7606 7.5-7.7) or withdrawn",
        "when a changed length field still lets a plain TLV walk end exactly at the end of the attribute block, only panics, resets-with-reason and legacy withdrawals are judged",
        "a faulty or duplicated MP_REACH_NLRI / MP_UNREACH_NLRI may reset the session; its own NLRI are then not required to appear as withdrawals",
        "semantic NEXT_HOP values (0.0.0.0, multicast), AIGP inner TLVs and mismatched AS-number width inside AS_PATH are not generated",
    ],
    floor=dict(
        evaluations=100000, nontrivial=25000,
        counters={
            "clause:never-installs:checked": 30000,
            "clause:discard:kept": 4000,
            "clause:discard:withdrawn": 2000,
            "clause:withdrawals:legacy-checked": 20000,
            "clause:withdrawals:mp-checked": 15000,
            "clause:ebgp-filter:reach-with-ibgp-attrs-in-input": 2500,
            "clause:reset:no-reset-needed-and-none": 40000,
            "outcome:reset-allowed": 10000,
            "fault:flags": 20000, "fault:len": 15000, "fault:omit": 6000, "fault:dup": 5000,
            "fault:unknown-wk": 8000, "fault:attrlen": 5000, "fault:lenfield": 5000, "fault:seg-zero": 3000,
            "fault:value": 3000, "fault:len-zero": 3000, "fault:dup-mp": 1000,
            "faults:2": 15000, "faults:3": 6000,
            "session:Ebgp": 25000, "session:Ibgp": 25000, "session:Confed": 12000, "session:as2": 25000, "session:as4": 35000,
            "scenario:mixed": 9000, "scenario:v4+wd": 9000, "scenario:mp+unreach": 9000,
            "family:V6": 4000, "family:Vpn4": 4000, "family:Vpn6": 4000, "family:Evpn": 4000,
            "family:Lab4": 4000, "family:Lab6": 4000, "family:Rtc": 4000, "family:V4Mc": 4000, "family:V4Mp": 3000,
        }),
    quick=[e1("all", "c05", "debug", 1, 40), e1("all", "c05", "release", 1, 40)],
    thorough=[e1("dbg", "c05", "debug", 8, 200),
              dict(e1("rel", "c05", "release", 8, 200), seed_offset=100),
              dict(e1("miri", "c05", "debug", 2, 120, flavor="miri", scale=0.001), seed_offset=200)],
)
