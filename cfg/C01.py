CFG = dict(
    level="exploration",
    rule="one evaluation = one history (observer configuration + op list) run against the real TableManager/PeerSession with one or more quiescent check points; non-trivial = a history in which a route was announced while a withdrawal was still pending at the observer (the destination-id recycling region), distinct by hash of (configuration, op list)",
    monitors=["mirror Adj-RIB-In decoded from the wire == what a brand-new session with the same parameters is sent (stale-route / missing-route / stale-attrs)",
              "every frame decodes with the peer-side codec"],
    assumptions=["check points are quiescent (all change events delivered, pending flushed, socket drained)",
                 "source peers are driven through TableManager calls in the order the daemon's session/timer code uses",
                 "a quarter of the histories issue the RIB-side operations from up to three OS threads with delay injection while the observer delivers/flushes; schedules are sampled, not enumerated"],
    floor=dict(evaluations=100, nontrivial=20,
               counters={"checks": 100, "frames-decoded": 500, "events-delivered": 500, "routes-compared": 300,
                         "op:announce": 500, "op:withdraw": 300, "branch:addpath": 20, "branch:plain": 20, "histories-concurrent": 30, "concurrent-bursts": 100, "sched-point-hits": 500, "late-joins": 10, "late-joins-overlapping-a-burst": 3}),
    quick=[e2("hist", "event::verif::c01::run", 4, 30)],
    thorough=[e2("hist", "event::verif::c01::run", 16, 200)],
)
