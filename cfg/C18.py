CFG = dict(
    level="exploration",
    rule="one evaluation = one subscription (snapshot + live stream) folded and compared with the RIB at the end of a concurrent history; non-trivial = a subscription that received Adj-RIB-In events both before and after EndOfSnapshot (it overlapped writes), distinct by hash of the recorded scheduling-point log of its history (+ one hash per history = distinct interleavings)",
    monitors=["EndOfSnapshot delivered", "folded pre-policy map == iter_reach over all shards", "folded post-policy map == iter_reach_post",
              "per key the last delivered event is the RIB's current state (unique MED tag per write)", "PeerDown clears the peer",
              "peer tracking (bmp::verif::c19b::c18_peer_tracking): track_peer_up/down against the statement for any call order; "
              "send_peer_up/down over a loopback Framed with arbitrary PeerUp/PeerDown event orders (PeerDown for peers never up, twice, "
              "after re-up): wire == exactly the PeerDowns that close an open PeerUp; the daemon's serve loop end to end (event::main, real "
              "sessions going up / down, stations subscribing at random points, PeerUp reconstructed from Global): every PeerDown read from a "
              "station socket closes an open PeerUp of that peer; a peer whose routes arrive at the end has an open PeerUp",
              "BMP station RIB (same e2e histories): everything a station read, folded (RouteMonitoring reach / withdraw per peer, view, "
              "prefix, path id; PeerDown clears the peer; End-of-RIB ignored), at the final synchronisation point == what an established "
              "peer announced, and empty for a peer whose session has ended (end observed on the sentinel station; no GR configured); "
              "histories where the last routes of a session, its end and a new station's snapshot phase overlap",
              "stalled snapshot (event::verif::c18s): BmpClient::try_connect -> serve on a hand-built Global + a TableManager with ballast "
              "routes (shard walk of subscribe(true) ~10 ms); while the station's snapshot is being taken every sequence up to length 3 "
              "(random beyond, flaps, sequences straddling the end of the walk) over {session ends (FSM path / direct-Terminate path), "
              "session (re-)establishes, announce / withdraw / replace, clear_session_state} of two peers is executed with the daemon's own "
              "calls in the daemon's order; a probe PeerUp event tells whether all of it was queued before EndOfSnapshot; then the same "
              "station-RIB clause against iter_reach / iter_reach_post + the pairing clause"],
    assumptions=["schedules are sampled (native threads + delay injection at the hook points), not enumerated",
                 "GR stale retention is out of scope of this property's quantifier (drops are plain peer drops)",
                 "peer tracking: a PeerDown event for a peer that never was established cannot be produced by real sessions (session_loop "
                 "emits it only after on_established), so that case is driven directly through send_peer_down; a repeated PeerUp and "
                 "RouteMonitoring for a peer without PeerUp are counted (unjudged:*), the statement does not name them"],
    parallel=5,
    floor=dict(evaluations=100, nontrivial=50,
               counters={"histories": 60, "sched-point-hits": 3000, "subscriptions-overlapping-writes": 10, "events-folded": 2000, "histories-folded-with-daemon-apply_snapshot": 25, "histories-with-family-onset": 60,
                         "c18:direct-cases": 300, "c18:direct-peer-down-forwarded": 1300,
                         "c18:direct-peer-down-events-for-peers-without-open-peer-up": 2000, "c18:track-suppressed": 250,
                         "c18:e2e-histories": 8, "c18:peer-down-closes-peer-up": 45, "c18:peer-down-after-reconstructed-peer-up": 18,
                         "c18:peer-up-live": 35, "c18:peer-up-reconstructed-from-global": 28, "c18:up-peer-has-open-peer-up": 40,
                         "c18:station-streams-judged": 25, "c18:station-rib-departed-peer-empty": 90,
                         "c18:station-rib-departed-peer-had-routes": 30, "c18:station-rib-established-peer-equal": 120,
                         "c18:e2e-histories-with-delay-injection": 8,
                         # stalled-snapshot scenarios (event::verif::c18s)
                         "stalled:scenarios-judged": 50,
                         # how many events fall inside the snapshot window depends on the machine's speed
                         # (the window is ~10 ms of shard walk): only the totals are floored, low
                         "stalled:scenarios-inside-window": 5, "stalled:late-start-straddling-the-end-of-the-window": 3,
                         "stalled:rib-view-equal/established-peer": 160, "stalled:rib-view-equal/departed-peer": 80}),
    quick=[e2("conc", "event::verif::c18::run", 3, 120), e2("concb", "bmp::verif::c18b::run", 3, 120), e2("peertrack", "bmp::verif::c19b::c18_peer_tracking", 1, 120),
           e2("stalled", "event::verif::c18s::run", 1, 90)],
    thorough=[e2("conc", "event::verif::c18::run", 8, 150), dict(e2("concb", "bmp::verif::c18b::run", 8, 150), seed_offset=100),
              e2("tsan", "event::verif::c18::run", 4, 120, flavor="tsan"),
              e2("miri", "event::verif::c18::run", 8, 200, flavor="miri", histories=2),
              dict(e2("peertrack", "bmp::verif::c19b::c18_peer_tracking", 2, 120), seed_offset=300),
              dict(e2("stalled", "event::verif::c18s::run", 3, 150), seed_offset=400)],
)
