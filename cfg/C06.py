# run plan + floors for C06 (loaded by checkcfg.py; helpers e1/e2 are in scope)
#
# Floors are for the merged totals of one tier and are sized at roughly 1/8 of what
# the 4 quick shards observed on /repo 79978f6 (where ~45 % of the histories stopped
# early at the restale phantom, since fixed by e27e05d); with findings fixed every
# count goes up, never down.
CFG = dict(
    level="exploration",
    rule="case = one Table call (step) of one protocol-conformant history, judged against "
         "collect_loc_rib_paths[_limited]; non-trivial = the call returned >=1 NlriChange or was an "
         "insert suppressed by deferral; distinct by hash of (universe, applied op list up to the step, call kind)",
    monitors=[
        "no-miss: best-only fold (skips !best_changed, keyed by dest_id) == first path of collect_loc_rib_paths, per prefix",
        "no-miss: add-path folds top-2 / top-3 / all (skip !any_changed, withdraw ids that left the top N, "
        "re-send on replaced_path_id) == collect_loc_rib_paths_limited(family, N)",
        "no-phantom: every path in any current_paths is listed by collect_loc_rib_paths for that prefix "
        "(nothing filtered / next-hop-invalid is handed out)",
        "id-unique: notification dest_id == id of that prefix; ids injective over ALL prefixes that hold >=1 path "
        "(incl. filtered-only ones; up to 400 live destinations in the allocator shape, so ids span several 64-id "
        "bitmap words); id stable while the prefix is never without paths; shard bits",
        "deferral: insert during deferral returns NoChange; end_deferral lists every prefix with an eligible path "
        "exactly once with its full list; folded views == RIB right after end_deferral",
        "no panic in any Table mutator (guard)",
    ],
    assumptions=[
        "call protocol of the daemon: one Source Arc per (session, family); a re-established session gets new Arcs "
        "with the same remote address; peer-down = drop(non-GR families) then restale(GR families); "
        "GR/LLGR events follow daemon/src/gr.rs GrState (mirrored in the harness); restale_llgr is followed by "
        "drop_no_llgr; nexthop_invalid of an insert = membership of its next hop in the unreachable set; "
        "PrefixLimitExceeded is followed by the peer-down sequence; start_deferral only on an empty family",
        "path identity = (peer address, attribute content, FULL next hop: variant + global + link-local address) for the best-only consumer, "
        "+ local_path_id for add-path consumers; a difference in the session Arc alone, or in the "
        "LLGR-stale flag of an unchanged best, is counted (unjudged:*) and not judged",
        "views of a family are not judged while that family is in deferral (notifications other mutators "
        "emit during deferral are counted as unjudged:notification-during-deferral); they are judged right after end_deferral",
        "an id leaked by an insert rejected with PrefixLimitExceeded (empty Destination) does not violate uniqueness: counted only",
        "at a failing step only the highest-priority clause is reported (panic > id-unique > no-phantom > deferral > no-miss)",
    ],
    floor=dict(
        evaluations=18000, nontrivial=12000,
        counters={
            "histories": 600,
            "histories-with-restarted-session": 500,
            "op:insert": 6000, "op:replace": 1800, "op:remove": 2000, "op:drop": 1500,
            "op:restale": 1400, "op:drop_stale": 250, "op:restale_llgr": 250, "op:drop_no_llgr": 200,
            "op:drop_llgr_stale": 120, "op:nexthop_validity": 1900, "op:start_deferral": 280,
            "op:end_deferral": 180, "op:insert-deferred": 1600,
            "op-with-notifications:drop_stale": 75, "op-with-notifications:restale_llgr": 110,
            "op-with-notifications:drop_no_llgr": 20, "op-with-notifications:drop_llgr_stale": 30,
            "op-with-notifications:end_deferral": 110,
            "consumer:best-skipped(!best_changed)": 4900,
            "consumer:addpath-resend-on-replaced_path_id": 1900,
            "consumer:addpath-withdraw-at-topN-boundary": 90,
            "insert:new-session-replaces-path-of-old-session": 85,
            "restale:paths-of-two-sessions": 20,
            "insert:filtered": 1900, "insert:nexthop-invalid": 3200,
            "insert:equal-content-new-arc": 2400, "insert:shared-arc": 7000,
            "insert:prefix-limit-exceeded": 25,
            "notif:three-or-more-paths": 200,
            "deferral:held-prefix-checked": 200,
            "id:notification-checked": 12000, "id:injectivity-checked": 37000,
            "phantom:path-checked": 9500, "views-compared": 30000,
            # IPv6 global + link-local next hops: replacements by the same session that keep the attribute
            # content and the global address and change only the link-local half / only the variant
            "insert:nexthop-global+link-local": 6000,
            "replace:nexthop-link-local-only": 250,
            "replace:nexthop-link-local-only:same-arc": 140,
            "replace:nexthop-link-local-only:same-arc:of-best-path": 60,
            "replace:nexthop-link-local-only:equal-content-new-arc": 110,
            "replace:nexthop-variant-only": 400,
            "replace:nexthop-variant-only:same-arc:of-best-path": 90,
            # allocator shape (part=alloc): ids must leave the first 64-bit bitmap word, whole
            # 64-id blocks must be released below a block that is still in use, and ids re-issued
            "alloc-histories": 40,
            "alloc-histories-with-more-than-64-live-destinations": 35,
            "alloc-histories-with-whole-block-release-below-live-block": 25,
            "alloc:whole-block-released-below-live-block": 40,
            "alloc:whole-block-released-at-tail": 60,
            "max:live-destinations-in-one-rib": 150,
            "id:assigned>=64": 4000, "id:assigned>=128": 2000,
            "notif:dest_id>=64": 10000, "notif:dest_id>=128": 5000,
            "id:reissued-to-another-prefix": 3000,
            "block:insert": 250, "block:remove": 100, "block:id-block-remove-all": 80,
            "block:id-block-remove-keep-highest": 25, "block:id-block-remove-keep-lowest": 25,
        }),
    # quick: 4 x 1300 histories x 40 ops (~1 s per shard)
    #        + 4 x 30 allocator-shape histories (200-400 prefixes, 60 ops ~ 1000 Table calls each, ~5 s per debug shard)
    quick=[e1("hist", "c06", "debug", 2, 120, part="hist"), e1("hist", "c06", "release", 2, 120, salt=1, part="hist"),
           e1("alloc", "c06", "debug", 2, 120, salt=3, part="alloc"), e1("alloc", "c06", "release", 2, 120, salt=4, part="alloc")],
    # thorough: 16 x 20000 histories x 80 ops; Miri: as many 25-op histories as fit the budget (~1 s per Table call)
    #           + 8 x 300 allocator-shape histories (or what fits 150 s)
    thorough=[e1("hist", "c06", "debug", 8, 200, part="hist"), e1("hist", "c06", "release", 8, 200, salt=1, part="hist"),
              e1("alloc", "c06", "debug", 4, 150, salt=3, part="alloc"), e1("alloc", "c06", "release", 4, 150, salt=4, part="alloc"),
              e1("miri", "c06", "debug", 8, 90, flavor="miri", scale=0.0005, len=25, salt=2, part="hist")],
)
