"""Per-property run plans for ./check.  One entry per claimed property.

run keys: name, engine (e1|e2), bin / test, profile (debug|release), flavor
(native|asan|miri|tsan), shards, budget_s, args (extra key=value for the monitor).
"""

def e1(name, bin, profile="debug", shards=1, budget_s=40, flavor="native", **args):
    return dict(name=name, engine="e1", bin=bin, profile=profile, shards=shards,
                budget_s=budget_s, flavor=flavor, args=args)


def e2(name, test, shards=1, budget_s=40, flavor="native", **args):
    return dict(name=name, engine="e2", test=test, shards=shards, budget_s=budget_s,
                flavor=flavor, args=args)


PROPS = {}


import glob as _glob
import os as _os

_here = _os.path.dirname(_os.path.abspath(__file__))
for _p in sorted(_glob.glob(_os.path.join(_here, "cfg", "C*.py"))):
    _ns = {"e1": e1, "e2": e2}
    exec(compile(open(_p).read(), _p, "exec"), _ns)
    PROPS[_os.path.basename(_p)[:-3]] = _ns["CFG"]
