#!/usr/bin/env python3
"""Refresh the generated tables of DESIGN.md §8 (between <!-- BEGIN x --> / <!-- END x --> markers)
from known_findings.json and seeded/*/meta.json."""
import json, glob, os, re
V = os.path.dirname(os.path.dirname(os.path.abspath(__file__)))

def findings_table():
    d = json.load(open(os.path.join(V, 'known_findings.json')))['findings']
    rows = ['| property | status | commit | signature(s) | what failed |', '|---|---|---|---|---|']
    for f in sorted(d, key=lambda f: (f['property'], f.get('commit', ''))):
        rows.append('| %s | %s | %s | `%s` | %s |' % (f['property'], f['status'], f.get('commit', '-'),
                    f['signature'].replace('|', '/'), f['what'].replace('|', '/')))
    return '\n'.join(rows)

def seeds_table():
    rows = ['| seeded change | property | what was changed | needs, to manifest | checks run -> result |', '|---|---|---|---|---|']
    for p in sorted(glob.glob(os.path.join(V, 'seeded', '*', 'meta.json'))):
        m = json.load(open(p))
        name = os.path.basename(os.path.dirname(p))
        runs = '; '.join('%s: %s' % (k, v) for k, v in m.get('checks_run', {}).items())
        rows.append('| %s | %s | %s | %s | %s |' % (name, m.get('property', ''), m.get('summary', '').replace('|', '/').replace('\n', ' ')[:400],
                    m.get('needs_to_manifest', '').replace('|', '/').replace('\n', ' ')[:400], runs.replace('|', '/')))
    return '\n'.join(rows)

def main():
    p = os.path.join(V, 'DESIGN.md')
    s = open(p).read()
    for name, fn in (('FINDINGS', findings_table), ('SEEDS', seeds_table)):
        b, e = '<!-- BEGIN %s -->' % name, '<!-- END %s -->' % name
        if b in s and e in s:
            s = s[:s.index(b) + len(b)] + '\n' + fn() + '\n' + s[s.index(e):]
    open(p, 'w').write(s)

if __name__ == '__main__':
    main()
