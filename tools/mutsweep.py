#!/usr/bin/env python3
"""mutsweep.py — development tool (NOT a registered check): systematic mutation sweep.

Generates small syntactic mutants inside the functions that properties.jsonl names as the
mechanisms of each property, and runs the quick checks of the properties anchored there
against each mutant.  A mutant that no check kills AND that passes the repo's own test
suite is a *survivor*: either equivalent with respect to the property, or a gap in the
workload / oracle that needs a follow-up.

Workers are isolated with mount namespaces: each sees its own copy of the repository at
/repo and its own /verif/target, /verif/evidence, /verif/replays, so that the real tree
and the committed evidence are never touched.

  mutsweep.py gen   <outdir> <n-per-property> [seed]    write jobs/*.json
  mutsweep.py run   <outdir> <workers>                   launch workers (unshare -m), wait
  mutsweep.py worker <outdir> <k>                        (internal, inside the namespace)
  mutsweep.py report <outdir>                            table of results
"""
import json, os, random, re, subprocess, sys, time, glob, shutil

VERIF = '/verif'
REPO = '/repo'

# ---------------------------------------------------------------- generation

def fn_spans(src):
    """(name, start_line, end_line) for every `fn name` with a body, by brace matching;
    stops at the first `#[cfg(test)]` followed by `mod` (unit tests live at the end)."""
    lines = src.split('\n')
    limit = len(lines)
    for i, l in enumerate(lines):
        if l.strip().startswith('#[cfg(test)]') or l.strip().startswith('#[cfg(all(test'):
            nxt = ' '.join(lines[i + 1:i + 3])
            if re.search(r'\bmod\b', nxt):
                limit = i
                break
    spans = []
    i = 0
    while i < limit:
        m = re.match(r'\s*(pub(\([a-z:]+\))?\s+)?(async\s+)?(const\s+)?fn\s+([A-Za-z0-9_]+)', lines[i])
        if m:
            name = m.group(5)
            depth = 0
            started = False
            j = i
            while j < limit:
                code = re.sub(r'//.*', '', lines[j])
                code = re.sub(r'"(\\.|[^"\\])*"', '""', code)
                code = re.sub(r"'(\\.|[^'\\])'", "' '", code)
                for ch in code:
                    if ch == '{':
                        depth += 1
                        started = True
                    elif ch == '}':
                        depth -= 1
                if not started and code.rstrip().endswith(';'):
                    break  # declaration without body
                if started and depth <= 0:
                    break
                j += 1
            if started:
                spans.append((name, i, j))
            # do not skip the body: nested fns are rare; continue after the header
            i += 1
        else:
            i += 1
    return spans, limit


OPS = [
    (r' <= ', ' < '), (r' < ', ' <= '), (r' >= ', ' > '), (r' > ', ' >= '),
    (r' == ', ' != '), (r' != ', ' == '),
    (r' && ', ' || '), (r' \|\| ', ' && '),
    (r' \+ 1\b', ''), (r' - 1\b', ''), (r' \+ ', ' - '),
    (r'\.min\(', '.max('), (r'\.max\(', '.min('),
    (r'\bif !', 'if '), (r'&& !', '&& '), (r'\|\| !', '|| '),
    (r'\btrue\b', 'false'), (r'\bfalse\b', 'true'),
    (r'\.is_some\(\)', '.is_none()'), (r'\.is_none\(\)', '.is_some()'),
    (r'\.is_empty\(\)', '.is_empty() == false'),
    (r'\bcontinue;', 'break;'), (r'\bbreak;', 'continue;'),
    (r'\.any\(', '.all('), (r'\.all\(', '.any('),
    (r'\.first\(\)', '.last()'), (r'\.last\(\)', '.first()'),
    (r'\.saturating_sub\(', '.wrapping_sub('),
    (r'\.take\((\w+)\)', r'.take(\1 + 1)'),
]


def candidates(path, wanted):
    src = open(os.path.join(REPO, path)).read()
    spans, _ = fn_spans(src)
    lines = src.split('\n')
    out = []
    for name, a, b in spans:
        if wanted is not None and name not in wanted:
            continue
        for ln in range(a + 1, b + 1):
            l = lines[ln]
            s = l.strip()
            if not s or s.startswith('//') or s.startswith('#[') or 'verif' in s:
                continue
            if s.startswith('debug_assert') or s.startswith('assert') or s.startswith('log::') \
                    or s.startswith('tracing::') or s.startswith('println') or s.startswith('eprintln'):
                continue
            code = l.split('//')[0]
            for pat, rep in OPS:
                for m in re.finditer(pat, code):
                    # skip generics / arrows / lifetimes
                    before = code[max(0, m.start() - 1):m.start() + 1]
                    if pat in (r' < ', r' > ') and re.search(r'[:A-Za-z]<|->|=>', code[max(0, m.start() - 2):m.end() + 1]):
                        continue
                    new = code[:m.start()] + m.expand(rep) + code[m.end():] + l[len(code):]
                    out.append(dict(file=path, line=ln + 1, fn=name, op='%s -> %s' % (pat, rep), old=l, new=new))
            # statement deletion: a lone call statement
            if re.match(r'^[a-z_][A-Za-z0-9_\.]*(\.|::)[a-z_][A-Za-z0-9_]*\(.*\);$', s) and not s.startswith('return') \
                    and not s.startswith('let '):
                out.append(dict(file=path, line=ln + 1, fn=name, op='delete-statement', old=l, new=l[:len(l) - len(l.lstrip())] + '();'))
    return out


def mech_functions(where):
    """function names mentioned in a mechanism's `where` string, per file"""
    res = {}
    cur = None
    for part in re.split(r';\s*', where):
        m = re.match(r'\s*([a-z_/]+\.rs)\s*(.*)', part)
        if m:
            cur = m.group(1)
            rest = m.group(2)
        else:
            rest = part
        if cur is None:
            continue
        names = set()
        for tok in re.findall(r'[A-Za-z_][A-Za-z0-9_]*(?:::\{[^}]*\})?(?:::[A-Za-z_][A-Za-z0-9_]*)*', rest):
            if '::{' in tok:
                inner = tok[tok.index('{') + 1:tok.index('}')]
                names.update(x.strip() for x in inner.split(','))
            else:
                names.add(tok.split('::')[-1])
        for n in re.split(r'[/,\s]+', rest):
            if re.match(r'^[a-z_][a-z0-9_]*$', n):
                names.add(n)
        res.setdefault(cur, set()).update(n for n in names if re.match(r'^[a-z_][a-z0-9_]*$', n))
    return res


def gen(outdir, per_prop, seed):
    rng = random.Random(seed)
    os.makedirs(os.path.join(outdir, 'jobs'), exist_ok=True)
    props = [json.loads(l) for l in open(os.path.join(VERIF, 'properties.jsonl'))]
    # function -> properties
    owner = {}
    for p in props:
        for m in p['anchors']['mechanism']:
            for f, names in mech_functions(m['where']).items():
                for n in names:
                    owner.setdefault((f, n), set()).add(p['id'])
    jobs = []
    for p in props:
        cands = []
        files = {}
        for m in p['anchors']['mechanism']:
            for f, names in mech_functions(m['where']).items():
                files.setdefault(f, set()).update(names)
        for f, names in files.items():
            if not os.path.exists(os.path.join(REPO, f)):
                continue
            cs = candidates(f, names)
            cands += cs
        rng.shuffle(cands)
        # spread over functions: round robin by fn
        byfn = {}
        for c in cands:
            byfn.setdefault((c['file'], c['fn']), []).append(c)
        order = []
        keys = list(byfn)
        rng.shuffle(keys)
        while keys and len(order) < per_prop:
            for k in list(keys):
                if byfn[k]:
                    order.append(byfn[k].pop())
                    if len(order) >= per_prop:
                        break
                else:
                    keys.remove(k)
        for c in order:
            c['props'] = sorted(owner.get((c['file'], c['fn']), {p['id']}) | {p['id']})
            jobs.append(c)
        print(p['id'], 'candidates', len(cands), 'functions', len(byfn), 'picked', len(order))
    seen = set()
    n = 0
    for c in jobs:
        key = (c['file'], c['line'], c['op'], c['new'])
        if key in seen:
            continue
        seen.add(key)
        c['id'] = 'm%04d' % n
        json.dump(c, open(os.path.join(outdir, 'jobs', c['id'] + '.json'), 'w'), indent=1)
        n += 1
    print('jobs', n)


# ---------------------------------------------------------------- running

def sh(cmd, cwd=None, timeout=3600, env=None):
    e = dict(os.environ)
    e['CARGO_NET_OFFLINE'] = 'true'
    if env:
        e.update(env)
    try:
        p = subprocess.run(cmd, shell=True, cwd=cwd, env=e, stdout=subprocess.PIPE, stderr=subprocess.STDOUT,
                           text=True, timeout=timeout)
        return p.returncode, p.stdout
    except subprocess.TimeoutExpired:
        return 124, 'timeout'


def run(outdir, workers):
    procs = []
    for k in range(workers):
        w = os.path.join(outdir, 'w%d' % k)
        for d in ('repo', 'target', 'evidence', 'replays'):
            os.makedirs(os.path.join(w, d), exist_ok=True)
        sh('rsync -a --delete --exclude target /repo/ %s/repo/' % w)
        script = ('mount --bind %s/repo /repo && mount --bind %s/target /verif/target && '
                  'mount --bind %s/evidence /verif/evidence && mount --bind %s/replays /verif/replays && '
                  'exec python3 /verif/tools/mutsweep.py worker %s %d' % (w, w, w, w, outdir, k))
        log = open(os.path.join(outdir, 'w%d.log' % k), 'a')
        procs.append(subprocess.Popen(['unshare', '-m', 'bash', '-c', script], stdout=log, stderr=log))
    for p in procs:
        p.wait()


def claim(outdir):
    for f in sorted(glob.glob(os.path.join(outdir, 'jobs', '*.json'))):
        dst = f.replace('/jobs/', '/claimed/')
        try:
            os.rename(f, dst)
            return dst
        except OSError:
            continue
    return None


def worker(outdir, k):
    os.makedirs(os.path.join(outdir, 'claimed'), exist_ok=True)
    os.makedirs(os.path.join(outdir, 'results'), exist_ok=True)
    assert open('/proc/self/mountinfo').read().count(' /repo ') >= 1, 'not in a namespace'
    while True:
        j = claim(outdir)
        if j is None:
            break
        c = json.load(open(j))
        t0 = time.time()
        path = os.path.join(REPO, c['file'])
        orig = open(path).read()
        lines = orig.split('\n')
        res = dict(c)
        at = c['line'] - 1
        if at >= len(lines) or lines[at] != c['old']:
            # the tree moved since the job was generated: nearest line with the same text
            cands = [i for i, l in enumerate(lines) if l == c['old']]
            at = min(cands, key=lambda i: abs(i - (c['line'] - 1))) if cands else -1
        if at < 0:
            res['outcome'] = 'stale-job'
        else:
            lines[at] = c['new']
            open(path, 'w').write('\n'.join(lines))
            try:
                crate = {'daemon': 'rustybgpd', 'packet': 'rustybgp-packet', 'table': 'rustybgp-table',
                         'kernel': 'rustybgp-kernel'}.get(c['file'].split('/')[0], '')
                rc, out = sh('cargo build --offline --workspace 2>&1 | tail -30', cwd=REPO, timeout=1800)
                if rc != 0 or 'error' in out and 'could not compile' in out:
                    res['outcome'] = 'stillborn'
                    res['detail'] = out[-600:]
                else:
                    res['checks'] = {}
                    killed = None
                    for p in c['props']:
                        rc, out = sh('./check %s > /verif/target/mut-last.log 2>&1; rc=$?; '
                                     'grep -E "^VIOLATION|signature:|^INCONCLUSIVE|tier=" /verif/target/mut-last.log | head -12; exit $rc' % p,
                                     cwd=VERIF, timeout=3000)
                        code = rc
                        res['checks'][p] = dict(exit=code, out=out[-900:])
                        if code == 1:
                            killed = p
                            break
                    if killed:
                        res['outcome'] = 'killed'
                        res['killed_by'] = killed
                    elif c.get('skip_suite'):
                        res['outcome'] = 'SURVIVED' if all(v['exit'] == 0 for v in res['checks'].values()) else 'inconclusive'
                    else:
                        rc, out = sh('cargo test --offline --workspace --no-fail-fast 2>&1 | grep "^test result" | '
                                     "awk '{p+=$4; f+=$6} END {print p, f}'", cwd=REPO, timeout=3000)
                        res['suite'] = out.strip()
                        try:
                            passed, failed = [int(x) for x in out.split()]
                        except ValueError:
                            passed, failed = 0, -1
                        if failed == 0 and passed >= 1242:
                            res['outcome'] = 'SURVIVED' if all(v['exit'] == 0 for v in res['checks'].values()) else 'inconclusive'
                        else:
                            res['outcome'] = 'killed-by-tests-only'
            finally:
                open(path, 'w').write(orig)
        res['secs'] = round(time.time() - t0)
        json.dump(res, open(os.path.join(outdir, 'results', c['id'] + '.json'), 'w'), indent=1)
        print(k, c['id'], c['file'], c['line'], c['op'], '->', res['outcome'], res.get('killed_by', ''), res['secs'], 's', flush=True)


def report(outdir):
    rs = [json.load(open(f)) for f in sorted(glob.glob(os.path.join(outdir, 'results', '*.json')))]
    tally = {}
    for r in rs:
        tally[r['outcome']] = tally.get(r['outcome'], 0) + 1
    print(tally)
    for r in rs:
        if r['outcome'] in ('SURVIVED', 'inconclusive'):
            print('%s %s %s:%d fn=%s props=%s\n   - %s\n   + %s' % (r['id'], r['outcome'], r['file'], r['line'], r['fn'],
                                                                 ','.join(r['props']), r['old'].strip(), r['new'].strip()))


def recheck(outdir):
    """second phase: every survivor is run against all the other properties' checks"""
    allp = ['C%02d' % i for i in range(1, 21)]
    n = 0
    for f in sorted(glob.glob(os.path.join(outdir, 'results', '*.json'))):
        r = json.load(open(f))
        if r['outcome'] != 'SURVIVED' or r['id'].endswith('r'):
            continue
        if os.path.exists(os.path.join(outdir, 'results', r['id'] + 'r.json')):
            continue
        j = {k: r[k] for k in ('file', 'line', 'fn', 'op', 'old', 'new')}
        j['id'] = r['id'] + 'r'
        j['props'] = [p for p in allp if p not in r['props']]
        j['skip_suite'] = True
        json.dump(j, open(os.path.join(outdir, 'jobs', j['id'] + '.json'), 'w'), indent=1)
        n += 1
    print('recheck jobs', n)


if __name__ == '__main__':
    cmd = sys.argv[1]
    if cmd == 'gen':
        gen(sys.argv[2], int(sys.argv[3]), int(sys.argv[4]) if len(sys.argv) > 4 else 1)
    elif cmd == 'run':
        run(sys.argv[2], int(sys.argv[3]))
    elif cmd == 'worker':
        worker(sys.argv[2], int(sys.argv[3]))
    elif cmd == 'recheck':
        recheck(sys.argv[2])
    elif cmd == 'report':
        report(sys.argv[2])
