#!/usr/bin/env python3
"""seedarchive.py <seed-out-dir> <name> <caught-by-json>: copy a confirmed seeded defect into /verif/seeded/<name>/"""
import json, os, shutil, sys, glob
src, name, caught = sys.argv[1], sys.argv[2], json.loads(sys.argv[3])
dst = os.path.join('/verif/seeded', name)
os.makedirs(dst, exist_ok=True)
for f in ('patch.diff', 'demo.diff'):
    shutil.copy(os.path.join(src, f), dst)
m = json.load(open(os.path.join(src, 'meta.json')))
suite = open(os.path.join(src, 'confirm-suite.log')).read().strip() if os.path.exists(os.path.join(src, 'confirm-suite.log')) else ''
m['confirmed_by_us'] = {
    'how': 'tools/seedconfirm.sh in the scratch worktree: demo.diff alone -> demo passes; + patch.diff -> demo fails; patch.diff alone -> full workspace suite',
    'suite_with_patch': suite,
}
m['checks_run'] = caught
json.dump(m, open(os.path.join(dst, 'meta.json'), 'w'), indent=1)
print('archived', dst)
