#!/bin/bash
# seedconfirm.sh <worktree> <seed-out-dir>: confirm demo passes w/o patch, fails with it, and the suite passes with the patch
set -u
W=$1; D=$2
cd "$W" || exit 2
export CARGO_NET_OFFLINE=true
DEMO=$(python3 -c "import json; print(json.load(open('$D/meta.json'))['demo_command'])")
git checkout -q -- . ; git clean -fdq -e Cargo.lock -e target
git apply "$D/demo.diff" || { echo "demo.diff does not apply"; exit 2; }
( eval "$DEMO" ) > "$D/confirm-clean.log" 2>&1; rc_clean=$?
git apply "$D/patch.diff" || { echo "patch.diff does not apply"; exit 2; }
( eval "$DEMO" ) > "$D/confirm-patched.log" 2>&1; rc_patched=$?
git checkout -q -- . ; git clean -fdq -e Cargo.lock -e target
git apply "$D/patch.diff"
cargo test --offline --workspace --no-fail-fast 2>&1 | grep "^test result" | awk '{p+=$4; f+=$6} END {print "suite-with-patch passed",p,"failed",f}' > "$D/confirm-suite.log"
git apply "$D/demo.diff" 2>/dev/null
echo "$(basename $D): demo clean rc=$rc_clean (want 0), patched rc=$rc_patched (want !=0); $(cat $D/confirm-suite.log)"
