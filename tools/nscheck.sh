#!/bin/bash
# nscheck.sh <worker> <patch.diff|-> <property> [tier] [extra env...]
# Development tool: run a check against a private copy of /repo (optionally with a patch
# applied) inside a mount namespace, with a private /verif/target, /verif/evidence and
# /verif/replays, so that the real tree, the shared build directories and the committed
# evidence are not touched and several such runs can go on in parallel.
set -u
W=/tmp/ns/w$1; PATCH=$2; P=$3; T=${4:-quick}
mkdir -p $W/repo $W/target $W/evidence $W/replays
# every file rsync had to restore gets a fresh mtime: cargo decides by mtime, and a pristine file
# restored with its old mtime after a patched run would leave the patched build in place
rsync -a --delete --exclude target --out-format='%n' /repo/ $W/repo/ | while read -r f; do [ -f "$W/repo/$f" ] && touch "$W/repo/$f"; done
if [ "$PATCH" != "-" ]; then (cd $W/repo && git apply "$PATCH") || { echo "patch does not apply"; exit 2; }; fi
unshare -m bash -c "mount --bind $W/repo /repo && mount --bind $W/target /verif/target && mount --bind $W/evidence /verif/evidence && mount --bind $W/replays /verif/replays && cd /verif && ./check $P --tier $T" > $W/last-$P-$T.log 2>&1
rc=$?
echo "ns w$1 patch=$(basename $(dirname $PATCH))/$(basename $PATCH) property $P tier $T -> exit $rc"
grep -E "^VIOLATION|signature:|^INCONCLUSIVE|tier=" $W/last-$P-$T.log | head -${NSLINES:-10}
exit 0
