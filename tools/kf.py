#!/usr/bin/env python3
"""kf.py fixed <prop> <commit> <signature> <what>   |  kf.py open <prop> <signature> <what>"""
import json, sys
p = '/verif/known_findings.json'
d = json.load(open(p))
kind, prop = sys.argv[1], sys.argv[2]
if kind == 'fixed':
    commit, sig, what = sys.argv[3], sys.argv[4], sys.argv[5]
    d['findings'].append(dict(property=prop, status='fixed', commit=commit, signature=sig,
                              record='fixed: property=%s %s %s' % (prop, commit, what), what=what))
else:
    sig, what = sys.argv[3], sys.argv[4]
    d['findings'].append(dict(property=prop, status='open', signature=sig, what=what))
json.dump(d, open(p, 'w'), indent=1)
