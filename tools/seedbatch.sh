#!/bin/bash
# seedbatch.sh <id-n> ... : confirm each seeded change in its scratch worktree (in parallel), remove the
# worktrees, then run the property's quick check against each one in its own namespace copy (4 at a time).
cd /tmp
for s in "$@"; do (setsid bash /verif/tools/seedconfirm.sh /tmp/seed-$s /tmp/seed-out/$s > /tmp/seed-out/$s/confirm.out 2>&1 &); done
sleep 5
while ps aux | grep -q "tools/seedconfirm.s[h]"; do sleep 10; done
for s in "$@"; do grep -v "^warning" /tmp/seed-out/$s/confirm.out | tail -n 1; git -C /repo worktree remove --force /tmp/seed-$s 2>/dev/null; done
cd /verif
i=0
for s in "$@"; do
  P=${s%-*}
  NSLINES=8 bash tools/nscheck.sh sb$((i % 4)) /tmp/seed-out/$s/patch.diff $P quick > /tmp/seed-out/$s/nscheck.out 2>&1 &
  i=$((i+1))
  if [ $((i % 4)) -eq 0 ]; then wait; fi
done
wait
for s in "$@"; do cat /tmp/seed-out/$s/nscheck.out; done
