#!/bin/bash
# seedtest.sh <seed-out-dir> <property> [tier]  — apply a seeded defect to /repo, run the check, undo.
set -u
D=$1; P=$2; T=${3:-quick}
cd /repo || exit 2
if ! git diff --quiet; then echo "repo dirty"; exit 2; fi
git apply "$D/patch.diff" || { echo "patch does not apply"; exit 2; }
cd /verif && ./check "$P" --tier "$T" > "$D/check-$P-$T.log" 2>&1; rc=$?
cd /repo && git checkout -- . 
echo "seed $(basename $D) property $P tier $T -> exit $rc"; grep -E "^VIOLATION|signature:|INCONCLUSIVE|tier=" "$D/check-$P-$T.log" | head -12
exit 0
