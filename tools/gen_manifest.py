#!/usr/bin/env python3
"""Regenerate /verif/MANIFEST.json from the table below + which cfg/Cxx.py files exist.
A property is claimed only when its entry here has claimed=True."""
import json, os, subprocess
V = os.path.dirname(os.path.dirname(os.path.abspath(__file__)))
E1 = "e1-lib-harness"
E2 = "e2-daemon-harness"
CHECKS = {}

def add(pid, engine, text, note, technique, claimed=True, design=None):
    CHECKS[pid] = dict(engine=engine, text=text, note=note, technique=technique, claimed=claimed,
                       design=design or "DESIGN.md §4 " + pid)

add("C12", E1,
    "Runtime monitor: the real RpkiTable is driven with every single-VRP table x route x origin of three 5-bit sub-spaces (complete), sampled VRP pairs, random VRP sets over the real address space and insert/remove/drop/reset histories; each result is compared with a brute-force RFC 6811 oracle. Held on the executions listed in the evidence, nothing more.",
    "Trusted: the 20-line brute-force covering/validity oracle; clean host bits in VRPs; AS_SET-tail origin accepted as NONE or local AS.",
    "runtime monitoring: reference-model oracle over generated inputs and histories (debug+release, Miri slice)")
add("C01", E2,
    "Runtime monitor: real TableManager + real PeerSession (on_established, handle_prefix_update, do_route_refresh, flush_tx) over a loopback TCP pair; seeded histories of announce / withdraw / peer-down / GR stale+purge / LLGR mark+purge / next-hop flap / export-policy change + soft reset out / import-policy change + soft reset in / route refresh, interleaved with partial event delivery and flushes, for all 5 neighbour roles, Add-Path send-max 1-3, 1/2/4 shards, observer optionally a source itself. Bytes read from the client socket are decoded by the peer-side codec into a mirror Adj-RIB-In; at each quiescent check point the mirror must equal what a brand-new session with identical parameters is sent (which then becomes the next observer). Failing histories are delta-debugged. A quarter of the histories are concurrent (RIB operations from up to three source threads with delay injection while the observer keeps delivering and flushing); in half of those the observing neighbour's session comes up (initial dump + channel registration) in the middle of a burst on a populated RIB. End-to-end part (c01e): the observing neighbour is a real session (Global::add_peer -> loopback TCP -> accept_connection -> PeerSession::run on a multi-thread runtime), so delivery and flushing are scheduled by the real run_select loop; the scripted remote end (repo codec) folds every UPDATE it reads; quiescent points by a sentinel-prefix barrier; at each judged point the connection is closed and a second real session for the same neighbour must be sent exactly the mirror. Shapes: sequential and concurrent sources, session up during a burst, a remote end that stops reading against 4 KB socket buffers (blocked flushes), hold time 3 s (KEEPALIVE interleaving), ROUTE-REFRESH from the wire.",
    "Trusted: the peer-side decode (repo codec, negotiate(remote,local)) and the quiescence procedure (KEEPALIVE sentinel through the same socket). Sequential histories; source peers are TableManager calls in the daemon's own call order.",
    "runtime monitoring: differential oracle (incremental view vs fresh-session dump) over generated histories with delivery/flush interleavings")
add("C02", E1,
    "Runtime monitor: one prefix (IPv4 and an EVPN type-2 NLRI) in the real Table with candidate paths drawn from small colliding domains (LOCAL_PREF, AS_PATH incl. SET/confed and 255/256/300/510 hops, ORIGIN, roles, stale/LLGR-stale flags and community, CLUSTER_LIST, ORIGINATOR_ID/router-id, MAC-mobility, filtered / next-hop-invalid); an exhaustive step matrix (every pair differing at step k with earlier steps equal), all permutations of up to 5 paths, and random histories (insert/replace/remove/drop/restale/LLGR/purges/next-hop flips) checked after every op against a reference strict-weak order written from the statement: maximal (ties legal), ranked, prefix (top-N and ECMP run), history-free. Debug+release.",
    "Trusted: the reference order (a dozen lines, literal transcription of the statement). ECMP on the EVPN NLRI, MAC-mobility seq 0 vs absent and TableQuery::RsLocal are not judged.",
    "runtime monitoring: reference-order oracle; exhaustive small-domain matrix + permutations + random histories")
add("C03", E1,
    "Runtime monitor: 519 seed frames (every message type, 19 families x reach/unreach/EOR x add-path, hand-written templates and encoder output, RTR PDU types 0-11, BFD) x 4.4 M systematic structured mutants (every length field, pairs of disagreeing lengths, truncation at every offset, type/code/flag sweeps, duplication/reordering) + random splices, delivered whole and in random fragments to a replica of run_select's rx loop (try_parse + validate_message) under 53 negotiated codecs, to RtrCodec::decode driven as Framed drives it, and to bfd::Message::decode; clauses no-panic (catch_unwind + panic site), trichotomy, progress, no-stall (a frame complete by the protocol's own length field is consumed or rejected), fragment-independence. Debug+release; ASan + Miri in thorough.",
    "Trusted: the rx-loop replica (a few lines calling the real functions) and the per-protocol 'complete frame' predicate. A non-returning call is inconclusive (watchdog), never a violation.",
    "runtime monitoring: structured-mutation fuzzing with panic capture + progress/stall monitors; ASan/Miri passes")
add("C04", E1,
    "Runtime monitor: Message values over all 19 real address families (entry counts from 0 to several frames, family-maximum NLRI sizes, attribute blocks grown to and past the frame limit, OPENs around the 253-byte limit, values obtained by decoding hand-written wire forms) are encoded by the real encode_to under 256 ordered pairs of capability sets; an independent framer + structural walker checks marker, lengths, negotiated maximum, mutual consistency and frame count; the peer's negotiated codec must decode the same multiset of (prefix, path-id), next hop and attributes up to the documented canonicalisation; decode(encode(x')) is a fixed point. Debug+release, ASan in thorough.",
    "Trusted: the independent walker and the canonicalisation rules (extended-length bit, order, AS4 reconciliation per RFC 6793); lossy cases RFC 6793 itself allows are counted unjudged.",
    "runtime monitoring: independent structural decoder + differential round-trip oracle over generated messages x capability pairs")
add("C06", E1,
    "Runtime monitor: histories of protocol events (session up/down with GR/LLGR, update, withdraw, timers, EOR, next-hop flips, start/end deferral) are turned into Table calls in the daemon's own order; four consumers (best-only, add-path top-2/top-3, all) fold the NlriChange stream exactly as process_nlri_change does and after every call each folded view must equal collect_loc_rib_paths[_limited] (no-miss, no-phantom), destination ids must be injective over live prefixes, and end_deferral must announce every held prefix. Failing histories are shrunk. Debug+release, Miri slice.",
    "Trusted: the consumer fold transcribed from export.rs (no stricter than the real consumers); views of a family during deferral are only judged at end_deferral.",
    "runtime monitoring: stream-fold vs ground-truth recount after every step of generated histories")
add("C05", E1,
    "Runtime monitor (packet level): valid UPDATE templates (legacy + MP families, eBGP/iBGP/confed, 2-/4-octet AS, ADD-PATH) are corrupted by a recording RFC 7606 fault engine (flags, length, value, duplication, omission, unknown well-known, truncation, iBGP-only attributes on eBGP, MP faults; up to 4 faults per UPDATE) and pushed through the real try_parse + validate_message; an oracle computed from the fault record and an independent TLV walk decides never-installs / treat-as-withdraw / discard / withdrawals-survive / reset-only-if-must / ebgp-filter / no-panic. Debug+release; Miri slice in thorough.",
    "Trusted: the fault classification (Benign/Discardable/MustWithdraw) written from the statement + RFC 7606; where RFC 7606 leaves a choice every permitted outcome is accepted (listed in the evidence assumptions). The end-to-end RIB half is not part of this check yet.",
    "runtime monitoring: fault-injection workload + reference classifier oracle over decoder output")
add("C14", E1,
    "Runtime monitor: random policy programs over every supported condition and action (nested/overlapping prefix sets, as-path single-match patterns, community/ext/large sets with ANY/ALL/INVERT, lengths, next hop, RPKI, local-pref, MED, origin, route type, community count, afi-safi) evaluated through the real apply_import/apply_export on routes partly obtained by decoding generated UPDATE bytes (every AS_PATH segment type, empty segments, >255 hops, every attribute kind) and compared with a reference interpreter written from the statement; CRUD histories (add/merge/replace/delete on sets, statements, policies, assignments) check that referenced entities cannot be deleted or silently changed. Debug+release; panics are violations.",
    "Trusted: the reference interpreter; cases where the statement is silent (regex patterns, ALL on community sets where readings differ, later conditions seeing earlier modifications) are counted as unjudged, not judged.",
    "runtime monitoring: reference-interpreter oracle over generated programs x routes + CRUD history invariants")
add("C15", E1,
    "Runtime monitor: random session histories (3 peers reusing their address across sessions, 5 prefixes x 2 families, path ids 0-2, filtered/unfiltered announcements, limits none/0/1/2/3, GR/LLGR timers, EOR, soft reset) are turned into exactly the Table calls the daemon makes; after every call the RIB is recounted through destinations(Global, .., true) and compared with state(), peer_stats() and the per-session limit counter; underflow (debug panic or counter > 2^63) is a violation. Failing histories are delta-debugged.",
    "Trusted: the recount definitions pinned by the repo's own addpath_peer_stats tests (received = distinct prefixes with a path from the peer, accepted = unfiltered paths) and the call protocol transcribed from table_manager.rs / event/mod.rs.",
    "runtime monitoring: conservation / recount invariant checked after every step of generated histories")
add("C19", E1,
    "Runtime monitor (packet level): generated BMP (PeerUp/PeerDown/RouteMonitoring for 19 families, add-path, L/O flags, peer types, 1..113000 NLRI) and MRT (BGP4MP, TABLE_DUMP_V2 peer index + RIB records) events are encoded by the real BmpCodec / MrtCodec / encode_table_dump and read back by independent structural readers written from RFC 7854/8671/9069 and RFC 6396/8050 (lengths, V flag / AFI vs addresses, exactly one PDU per record, peer indexes, entry counts); the embedded PDUs are parsed with the repo's own BGP parser and must give back the monitored prefixes, attributes and next hop. ASan pass in thorough. The daemon-side converters are not part of this check yet.",
    "Trusted: the independent readers; an event is only judged if a plain BGP session codec of the repo round-trips it (otherwise it is C04's subject and counted unjudged).",
    "runtime monitoring: independent structural decoder + round-trip oracle over generated records (ASan in thorough)")
add("C07", E2,
    "Runtime monitor: the real PeerFsm and the real ConnArbiter wrapper driven over a 32-symbol alphabet (2 roles x 16 inputs: connect, acceptable / unacceptable OPENs from the real parser, KEEPALIVE, UPDATE, NOTIFICATIONs, ROUTE-REFRESH, timers, disconnect, admin shutdown, update-sent), exhaustively to depth 4 (quick) / 5 (thorough) for local-id {<,=,>} remote-id x 3 hold-time pairs, plus random histories of length 30-200; a 30-line reference FSM run in lock-step decides path, fsm-error (RFC 6608 subcode), idle, at-most-one and collision (survivor + Cease to the loser through the close channel). Real-task part (c07b): real loopback TCP connections of both roles into accept_connection + PeerSession::run for one neighbour, scripted remote ends speaking BGP through the real codec, seeded scheduler-turn timing between the two connections and between teardown and accept; judged at the remote ends and at quiescence: after a collision exactly one connection survives and the loser's remote end reads Cease/collision, at most one connection in OpenConfirm-or-Established, a freed slot accepts a new connection.",
    "Trusted: the reference FSM written from the statement; anything the statement does not demand is counted unjudged.",
    "runtime monitoring: exhaustive bounded input-sequence enumeration against a lock-step reference model")
add("C08", E2,
    "Runtime monitor: timed input sequences (advance virtual time, OPEN / KEEPALIVE / UPDATE / ROUTE-REFRESH arrival, update-sent) for all 25 hold-time pairs of {0,3,9,90,65535}^2, exhaustively to depth 6 (quick) / 8 (thorough) plus random; the FSM's SetHoldTimer / SetKeepaliveTimer / SessionDown outputs are interpreted by a virtual-time transcription of the driver's timer handling (apply_outputs / flush_tx / run_select); clauses negotiated (min, /3), re-arm (exactly on KEEPALIVE/UPDATE), expiry-iff, zero-disables. Thorough cross-checks five real PeerSessions over loopback (wall-clock, confirm-only). Real-time part (c08b): 240 real sessions (accept_connection + PeerSession::run) run concurrently with scripted remote ends and small hold-time pairs; measured at the remote end with a monotonic clock; verdicts are sound under load: early expiry (NOTIFICATION read less than the negotiated hold after the remote end started writing its last message), any teardown or second KEEPALIVE with negotiated 0, wrong NOTIFICATION code; 'late' verdicts (no teardown, keepalive gap) only with a heartbeat proof that the runtimes were responsive, otherwise counted.",
    "Trusted: the ~60-line virtual-time transcription of the driver's timer handling (tokio test-util is not enabled, so real timers cannot be paused).",
    "runtime monitoring: virtual-time trace checker over exhaustively enumerated timed input sequences")
add("C09", E2,
    "Runtime monitor: the full source-kind x receiver-role x cluster x confederation matrix (360 cells incl. echo variants) crossed with a covering set + random attribute vectors (every AS_PATH segment type, full 255-AS segment, next-hop kinds, MED, LOCAL_PREF, ORIGINATOR_ID, CLUSTER_LIST, AIGP, communities, opaque attributes, LLGR-stale sources, policy next-hop/MED actions) through both branches of the real process_nlri_change with a recording sink, judged by an expected_export function written from the statement; inbound is_as_loop / rx_update loop checks with the RIB read back; role and cluster-id derivation through accept_connection on TOML neighbour configs.",
    "Trusted: expected_export (Suppress | Send{attrs', nexthop'}); where the statement is silent (RS-client transparency, confed MED/next hop, policy MED on eBGP, LLGR to non-LLGR peers) nothing is judged. Debug profile only (E2).",
    "runtime monitoring: reference-function oracle over an enumerated configuration matrix x generated attribute vectors")
add("C10", E2,
    "Runtime monitor: one op language (connect full / dying before or after OPEN, announce plain / NO_LLGR / LLGR_STALE, withdraw, EOR per family, every kind of session drop, restart-timer and per-family LLGR-timer expiry as history events through the daemon's own fire-now channels, forced down), two executors: L2 = the real accept_connection + PeerSession::run over loopback TCP with the harness as remote speaker; L1 = the real apply_disconnect / process_effects / negotiate_gr / negotiate_llgr / timer tasks on new_for_test sessions (exhaustive to depth 5 / 6 over a 16-letter alphabet x 6 GR/LLGR configurations + random), calibrated against L2 on every shard; one oracle with invariants I1-I7 (stale routes only while a timer or EOR is pending; kept vs dropped families; non-eligible drops never enter helper mode; purge at expiry / EOR; re-announced paths survive; failed reconnects leave the timer armed; NO_LLGR dropped at LLGR start). Routes carry the session epoch in their MED. The handlers of cancelled-but-not-fired restart / LLGR timers are input symbols of their own (a timer task that had already left its sleep when it was cancelled), offered in every later state.",
    "Trusted: the I1-I7 oracle written from the statement; L1's replica of the session_loop tail is only used when its observations equal L2's on the calibration histories (else inconclusive). Cease with N-bit other than hard reset and hold-timer expiry accept both outcomes.",
    "runtime monitoring: invariant checking at quiescent points of generated fault/timer histories (end-to-end sessions + exhaustive bounded enumeration)")
add("C11", E2,
    "Runtime monitor: a real RestartingDeferral in Global.selection_deferral coupled to a real TableManager through the real process_restarting_outputs / gr_selection_deferral_timer_expired (and through PeerSession::process_effects); event sequences over 3 peers x 3 families (PeerEstablished with any family subset, EOR, PeerWithdrawn, TimerExpired) enumerated exhaustively to depth 4 (quick; up to peer renaming) / 5 (thorough) plus random histories to length 40, interleaved with insert_route into deferred and non-deferred families and observed on a registered peer channel; judged by a pending-map model written from the statement: held, release-iff (not early, not late), exactly-once per prefix at release, non-GR peers never block, terminates. Concurrent part: one thread ends the deferral through the real glue while session threads insert / remove on three hot prefixes with delay injection at the table_manager scheduling points; at quiescence the last event per prefix on a registered peer channel must equal the RIB, untouched held prefixes are announced exactly once, the deferring flag is cleared on every shard.",
    "Trusted: the pending-map model; steps the statement leaves undefined are counted unjudged. Timer expiry is an event of the history (the glue function is called directly), not wall-clock.",
    "runtime monitoring: exhaustive bounded event-sequence enumeration + random histories against a reference model, observing the real change stream")
add("C13", E2,
    "Runtime monitor: the real RpkiClient::serve_inner over tokio::io::duplex against a conforming-cache model (reset and serial responses, v0/v1 End of Data, Serial Notify, Cache Reset, Error Report, Router Key PDUs, serial / session-id wrap, random fragmentation, connection loss at and inside PDU boundaries, cancel, reconnect, two caches on one TableManager), all PDUs built byte by byte; after every consumed End of Data the VRPs installed for that cache (collect_roa by source) must equal the fold of the cache's responses, the other cache's VRPs are untouched, all are gone after the session ends, and a parked client with a complete PDU unconsumed is a stall. A second workload drives the real try_connect over loopback TCP and cancels it as DisableRpki does.",
    "Trusted: the cache model (RFC 6810/8210) and the state-based quiescence (client parked with every byte consumed); the client ignoring Cache Reset is counted unjudged.",
    "runtime monitoring: protocol peer model + fold-of-history oracle at quiescent points")
add("C16", E2,
    "Runtime monitor: generated configurations (static neighbours, peer groups with dynamic prefixes incl. unaligned / host-bit prefixes, confederation, route-server and reflector clients, per-family add-path / GR / LLGR / prefix limits, passive, admin-down) are loaded through the real gRPC handlers or config text -> validate -> Global::apply_config; real loopback TCP connections from 127.x.y.z and ::1 enter accept_connection in both roles while histories connect, disconnect, enable, disable, delete, re-add (also while connected) and add/delete prefixes; accepted sessions run PeerSession::run. Judged: admission against independent prefix arithmetic, zero bytes written to refused connections, the session's role / local AS / expected AS / hold time / families / add-path / GR / LLGR / prefix limits / export policy / cluster id against the neighbour's or group's configuration, dynamic-neighbour cleanup. Mirror part (E1 + E2): PeerCodec::negotiate, negotiate_gr / negotiate_llgr and the FSM's effective send-max computed from both ends' capability lists (raw, decoded through the real OPEN encode -> decode, with duplicates) must be mirror images. Concurrent part: a configuration change (disable / enable / delete / add / replace / dynamic-prefix change through the real gRPC handlers) runs in its own task of a multi-thread runtime while accept_connection runs in others; after both returned, an admin-down or deleted neighbour must own no session that was not told to shut down, and a surviving session must carry the parameters of a configuration that existed.",
    "Trusted: the monitor's own prefix arithmetic and configuration model; cases the statement leaves open (a refusable configured neighbour inside a dynamic prefix, precedence among overlapping groups) are counted unjudged.",
    "runtime monitoring: reference-model oracle on real accept_connection over loopback TCP + mirror-image (symmetry) invariant on negotiation over generated capability lists")
add("C17", E2,
    "Runtime monitor: (a) round trip attr_to_api->attr_from_api and nlri_to_api->net_from_api on values obtained by decoding hand-built UPDATEs for all 19 families and attribute kinds; (b) totality: directed + random API messages under catch_unwind, every accepted value checked by an independent validator written from the wire rules and then used (Table insert next to competing paths, apply_import with 13 conditions, RPKI validate, export for 5 roles, encode_to with 2/4-octet AS, display) - a panic there is a violation; (c) store-and-show through the real GrpcService add_path -> list_path -> delete_path for all families.",
    "Trusted: the wire-rule validator and the documented canonicalisations of local_path (ORIGIN/AS_PATH defaults, ORIGINATOR_ID/CLUSTER_LIST/MP_UNREACH dropped, next hop as NEXT_HOP or MP_REACH). In-process calls, no gRPC transport. Debug profile only (E2).",
    "runtime monitoring: round-trip + invariant-preservation oracle with use-after-accept probing of generated API inputs")
add("C18", E2,
    "Runtime monitor on real threads: writer sessions (insert/remove/peer drop+re-up), a controller toggling import policy + soft_reset_in, and subscribers that subscribe/unsubscribe at random points run against the real TableManager with delay injection at the hook points between critical sections; after quiescence each subscription's folded event stream must equal iter_reach / iter_reach_post. Thorough adds ThreadSanitizer and Miri (different schedules per -Zmiri-seed). Schedules are sampled, not enumerated. BMP station clause (daemon's real serve loop over loopback TCP): everything a station read is folded (PeerDown clears the peer) and must equal what established peers announced, and nothing for departed peers.",
    "Trusted: the fold (insert on reach, remove on withdraw, PeerDown clears the peer) and the ground truth read through the table's own iterators; GR stale retention not in scope.",
    "runtime monitoring: concurrent stress with delay injection + offline history fold checker; TSan + Miri schedule exploration")

add("C20", E2,
    "Runtime monitor: real TableManager with the kernel crate's verification handle as kernel_handle; histories of insert / replace / remove / peer drop / GR stale + purge / soft_reset_in with import-policy changes / next-hop reachability reports over 3 peers sharing 3 next hops, IPv4 + IPv6 + VPNv4 imported into two VRFs; after every operation the drained request stream is folded: FIB replay per (table, prefix) must equal the next hops of the best path and the paths tied with it before the router-id step (own tie key), NHT registrations minus unregistrations per address must equal the peer-learned paths using it (never negative), and no path via an unreachable next hop may be eligible. Failing histories are delta-debugged. Concurrent part: one thread per session, one delivering the (serialised) reachability reports and one doing import-policy changes + soft resets, with delay injection at the table_manager.rs scheduling points; at the quiescent end of each history the same oracle is applied, plus the converse of exclusion (a path whose next hop is reachable is eligible).",
    "Trusted: the fold of the request stream and the reference tie key; observation at the request channel, not Netlink; VRFs whose import targets do not match the current best are not judged. Concurrent failures are not deterministically replayable (witness: per-thread operation lists, delay seed, reproduction rate in 10 re-runs).",
    "runtime monitoring: replay of the recorded request stream vs recount of the RIB after every step and at quiescent points of multi-threaded histories with delay injection (conservation + equality invariants)")

def main():
    props = [json.loads(l) for l in open(os.path.join(V, "properties.jsonl"))]
    old = json.load(open(os.path.join(V, "MANIFEST.json")))
    repo_hooks = subprocess.run(["git", "-C", "/repo", "log", "--format=%h %s", "--grep=^verif hooks"], capture_output=True, text=True).stdout.strip().splitlines()
    checks = []
    na = []
    na_reasons = {n["property_id"]: n["reason"] for n in old.get("not_applicable", [])}
    for p in props:
        pid = p["id"]
        c = CHECKS.get(pid)
        if c and c["claimed"] and os.path.exists(os.path.join(V, "cfg", pid + ".py")):
            checks.append({
                "property_id": pid,
                "quick_cmd": "./check %s --tier quick" % pid,
                "thorough_cmd": "./check %s --tier thorough" % pid,
                "evidence_file": "evidence/%s.json" % pid,
                "replay_cmd_template": "./check %s --replay {path}" % pid,
                "engine": c["engine"],
                "level_claimed": {"category": "exploration", "text": c["text"], "design_ref": c["design"]},
                "level_note": c["note"],
                "technique": c["technique"],
            })
        else:
            na.append({"property_id": pid, "reason": NA.get(pid, "monitor not integrated yet (work in progress; planned runtime monitor in DESIGN.md §4 %s)" % pid)})
    m = {
        "version": 1,
        "setup_cmd": "./check setup",
        "hooks": {
            "guard": "--cfg osrg_rustybgp_verif",
            "enable": "RUSTFLAGS=\"--cfg osrg_rustybgp_verif --cfg verif_cNN ...\" (set by ./check for the daemon test binary; the external harness crate needs no hooks)",
            "baseline_off_cmd": "cd /repo && cargo test --workspace --no-fail-fast --offline",
            "source_commits": [l.split()[0] for l in repo_hooks],
            "add_only": True,
        },
        "engines": [
            {"name": E1, "path": "harness", "serves_properties": sorted(k for k, v in CHECKS.items() if v["engine"] == E1),
             "kind_free_text": "external cargo crate on /repo/packet + /repo/table (path deps): seeded workloads + reference-model / invariant monitors; debug+release, Miri/ASan passes in the thorough tier"},
            {"name": E2, "path": "harness/daemon", "serves_properties": sorted(k for k, v in CHECKS.items() if v["engine"] == E2),
             "kind_free_text": "monitor modules #[path]-included into the daemon crate under cfg(all(test, osrg_rustybgp_verif)); real TableManager / PeerSession / FSM / GR code driven in-process, threads + delay injection, TSan/Miri passes"},
        ],
        "checks": checks,
        "not_applicable": na,
        "notes": "All checks are runtime monitors (exploration level): verdicts are 'held on the executions described in evidence/<id>.json', 'VIOLATION with a replay witness', or inconclusive (exit 2). Known findings: known_findings.json.",
    }
    json.dump(m, open(os.path.join(V, "MANIFEST.json"), "w"), indent=1)
    print("claimed:", [c["property_id"] for c in checks])

NA = {}
if __name__ == "__main__":
    main()
