#!/usr/bin/env python3
import json,sys
p='/verif/seeded/%s/meta.json'%sys.argv[1]
m=json.load(open(p)); m.setdefault('checks_run',{})[sys.argv[2]]=sys.argv[3]; json.dump(m,open(p,'w'),indent=1)
