#!/bin/bash
# seedprep.sh <id> <n>: create worktree /tmp/seed-<id>-<n>, out dir and prompt
id=$1; n=$2
d=/tmp/seed-$id-$n; o=/tmp/seed-out/$id-$n
cd /repo && git worktree add -q --detach $d HEAD && cp Cargo.lock $d/ && mkdir -p $o
python3 - "$id" "$n" <<'PY'
import json,sys
id,n=sys.argv[1],sys.argv[2]
for l in open('/verif/properties.jsonl'):
    p=json.loads(l)
    if p['id']==id:
        prop="%s — %s\n\nSTATEMENT: %s\n\nQUANTIFIED OVER: %s\n\nRELEVANT FILES: %s\n\nMECHANISMS MEANT TO MAKE IT HOLD: %s\n" % (p['id'],p['title'],p['statement'],p['quantifier']['text'],', '.join(p['anchors']['files']),'; '.join('%s (%s)'%(m['name'],m['where']) for m in p['anchors']['mechanism']))
t=open('/tmp/seed-out/PROMPT.txt').read()
t=t.replace('__WT__','/tmp/seed-%s-%s'%(id,n)).replace('__OUT__','/tmp/seed-out/%s-%s/'%(id,n)).replace('__PROPERTY__',prop)
open('/tmp/seed-out/%s-%s/PROMPT.txt'%(id,n),'w').write(t)
PY
echo prepared $d
