#!/usr/bin/env python3
import json, jsonschema, glob, sys
ms = json.load(open('/root/.vp/MANIFEST.schema.json')); es = json.load(open('/root/.vp/EVIDENCE.schema.json'))
m = json.load(open('/verif/MANIFEST.json')); jsonschema.validate(m, ms)
bad = 0
for c in m['checks']:
    p = '/verif/' + c['evidence_file']
    try:
        e = json.load(open(p)); jsonschema.validate(e, es)
        cov = e['coverage']
        print('%s ok  tier=%s evals=%d distinct=%d samples=%d violations=%s' % (c['property_id'], e['tier'], cov['evaluations'], cov['distinct_nontrivial'], len(cov['samples']), e.get('violations')))
    except Exception as ex:
        bad += 1; print('%s BAD %s' % (c['property_id'], str(ex)[:200]))
claimed = {c['property_id'] for c in m['checks']}; na = {n['property_id'] for n in m.get('not_applicable', [])}
print('claimed', len(claimed), 'not_applicable', sorted(na))
sys.exit(1 if bad else 0)
