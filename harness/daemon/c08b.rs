//! C08, real-time part — the driver side of the timers: `apply_outputs` turning
//! `Set*Timer(n)` into tokio sleeps, `run_select` feeding their expiry back and
//! flushing the KEEPALIVEs, executed for real: many real `PeerSession::run`
//! tasks in parallel in one multi-threaded runtime, each behind a real
//! `accept_connection` over loopback TCP, each with a scripted remote end
//! (OPEN with a chosen hold time, KEEPALIVE / UPDATE at chosen offsets,
//! silence).  Everything is measured at the REMOTE end with the monotonic clock.
//!
//! Verdicts have to hold on an arbitrarily loaded machine: load makes things
//! LATE, never EARLY.
//!   * "early" verdicts rest on an event that was observed: a Hold Timer Expired
//!     NOTIFICATION (or a close) read less than (negotiated hold − ε) after the
//!     remote end STARTED writing its last KEEPALIVE / UPDATE / OPEN (time stamp
//!     taken before the write, so lateness of the script only enlarges the
//!     interval); a teardown or a periodic KEEPALIVE with negotiated hold 0; a
//!     NOTIFICATION that is not 4/0.  Because a daemon task that is starved
//!     longer than the script's safety margin (≥ 1.2 s before every deadline)
//!     could legitimately find its hold timer due before it reads a message
//!     that is already in its socket, an early expiry after a *re-arming*
//!     message is a violation only while the heartbeat tasks prove the runtime
//!     responsive (max lag < 0.4 s in that interval); otherwise it is counted.
//!   * "late" verdicts (no teardown after silence, expiry much later than the
//!     negotiated value, a gap without KEEPALIVE) are violations only with a
//!     generous bound AND the responsiveness proof (the measured heartbeat lag
//!     is added three-fold to the bound); otherwise they are counted as unjudged.
use super::super::*;
use super::common::*;
use crate::fsm::Role;
use bytes::BytesMut;
use std::net::{IpAddr, Ipv4Addr, SocketAddr};
use std::time::Instant;
use tokio::io::AsyncReadExt;
use tokio::net::TcpStream;

const LOCAL_AS: u32 = 65001;
const REMOTE_AS: u32 = 65002;
const LOCAL_HOLDS: [u16; 5] = [3, 4, 6, 9, 0];
const REMOTE_HOLDS: [u16; 5] = [3, 5, 9, 0, 30];
/// clock granularity / timer rounding
const EPS: f64 = 0.020;
/// the script never lets a deadline come closer than this
const MARGIN_MS: u64 = 1200;
const LAG_OK_EARLY: f64 = 0.4;
const LAG_OK_LATE: f64 = 1.0;

// ------------------------------------------------------------------ responsiveness proof

struct Heartbeat {
    /// (when measured, by how much a 20 ms sleep overslept)
    samples: std::sync::Mutex<Vec<(Instant, f64)>>,
    stop: std::sync::atomic::AtomicBool,
}

impl Heartbeat {
    fn start(rt: &tokio::runtime::Handle, n: usize) -> Arc<Heartbeat> {
        let hb = Arc::new(Heartbeat {
            samples: std::sync::Mutex::new(Vec::new()),
            stop: std::sync::atomic::AtomicBool::new(false),
        });
        for _ in 0..n {
            let h = Arc::clone(&hb);
            rt.spawn(async move {
                while !h.stop.load(Ordering::Relaxed) {
                    let t = Instant::now();
                    tokio::time::sleep(Duration::from_millis(20)).await;
                    let lag = (t.elapsed().as_secs_f64() - 0.020).max(0.0);
                    h.samples.lock().unwrap().push((Instant::now(), lag));
                }
            });
        }
        hb
    }
    /// the largest lag measured by a heartbeat whose sleep overlapped [a, b];
    /// None when no heartbeat completed in or after the interval (nothing proven)
    fn max_lag(&self, a: Instant, b: Instant) -> Option<f64> {
        let s = self.samples.lock().unwrap();
        let mut m: Option<f64> = None;
        let mut covered_end = false;
        for (t, lag) in s.iter() {
            let start = *t - Duration::from_secs_f64(lag + 0.020);
            if *t >= a && start <= b {
                m = Some(m.map_or(*lag, |x: f64| x.max(*lag)));
            }
            if *t >= b {
                covered_end = true;
            }
        }
        if covered_end { m.or(Some(0.0)) } else { None }
    }
    fn overall(&self) -> f64 {
        self.samples
            .lock()
            .unwrap()
            .iter()
            .map(|x| x.1)
            .fold(0.0, f64::max)
    }
    /// the longest stretch of [a, b] in which no heartbeat completed
    fn longest_silence(&self, a: Instant, b: Instant) -> f64 {
        let mut ts: Vec<Instant> = self
            .samples
            .lock()
            .unwrap()
            .iter()
            .map(|x| x.0)
            .filter(|t| *t >= a && *t <= b)
            .collect();
        ts.sort();
        let mut prev = a;
        let mut m = 0.0f64;
        for t in ts {
            m = m.max(t.saturating_duration_since(prev).as_secs_f64());
            prev = t;
        }
        m.max(b.saturating_duration_since(prev).as_secs_f64())
    }
}

/// The daemon's tasks (accept_connection, PeerSession::run) live on a runtime of their
/// own; the scripted remote ends and their clock live on another one.  A session task
/// that monopolises its runtime thread can then still be observed from outside, and
/// the two heartbeats tell a loaded machine (both late) from a daemon that starves its
/// own runtime (only the daemon side late).
struct Ctx {
    daemon: tokio::runtime::Handle,
    hb_daemon: Arc<Heartbeat>,
    hb_harness: Arc<Heartbeat>,
}

impl Ctx {
    /// responsiveness of both sides in [a, b]; None = not proven
    fn lag(&self, a: Instant, b: Instant) -> Option<f64> {
        Some(
            self.hb_daemon
                .max_lag(a, b)?
                .max(self.hb_harness.max_lag(a, b)?),
        )
    }
}

// ------------------------------------------------------------------ plan of one session

#[derive(Clone, Copy, PartialEq, Eq, Debug)]
enum Msg {
    Open,
    Keepalive,
    Update,
}

impl Msg {
    fn name(self) -> &'static str {
        match self {
            Msg::Open => "open",
            Msg::Keepalive => "keepalive",
            Msg::Update => "update",
        }
    }
}

#[derive(Clone, Debug)]
struct Plan {
    id: u64,
    local: u16,
    remote: u16,
    role: Role,
    class: &'static str,
    /// send the OPEN without waiting for the daemon's
    blind: bool,
    /// delay before the session is started at all (spreads the load)
    start_ms: u64,
    /// (offset from the own OPEN in ms, message); sorted
    sends: Vec<(u64, Msg)>,
    /// negotiated 0: how long the remote end watches
    observe_ms: u64,
}

fn negotiated(l: u16, r: u16) -> u16 {
    l.min(r)
}

fn make_plan(rng: &mut Rng, id: u64, thorough: bool) -> Plan {
    let (local, remote) = match rng.usize(10) {
        // the pair in which the configured value is not the negotiated one
        0 | 1 => (9, 3),
        2 => (3, 30),
        _ => (*rng.pick(&LOCAL_HOLDS), *rng.pick(&REMOTE_HOLDS)),
    };
    let h = negotiated(local, remote) as u64 * 1000;
    let role = if rng.bool() {
        Role::Active
    } else {
        Role::Passive
    };
    let blind = rng.chance(1, 2);
    let start_ms = rng.range(0, 2500);
    let mut sends = vec![(0, Msg::Open)];
    if h == 0 {
        // a few messages, or none: nothing may happen either way
        let first = rng.range(0, 800);
        sends.push((first, Msg::Keepalive));
        let mut t = first;
        for _ in 0..rng.usize(4) {
            t += rng.range(300, 3000);
            sends.push((
                t,
                if rng.chance(1, 3) {
                    Msg::Update
                } else {
                    Msg::Keepalive
                },
            ));
        }
        return Plan {
            id,
            local,
            remote,
            role,
            class: "zero",
            blind,
            start_ms,
            sends,
            observe_ms: if thorough { 30_000 } else { 12_000 },
        };
    }
    // spacing that keeps every deadline at least MARGIN_MS away
    let space_max = h - MARGIN_MS.max(h * 2 / 5);
    let kept_alive = rng.chance(3, 5);
    // the first KEEPALIVE may come well after the OPEN
    let first = if rng.chance(1, 2) {
        rng.range(0, 200)
    } else {
        rng.range(space_max / 2, space_max)
    };
    sends.push((first, Msg::Keepalive));
    let class;
    if kept_alive {
        class = "kept-alive";
        // long enough that a timer that was not re-armed would have fired (twice)
        let until = first + h + rng.range(1500, if h > 6000 { 3000 } else { 2 * h });
        let mut t = first;
        while t < until {
            t += rng.range(space_max * 3 / 4, space_max);
            sends.push((
                t,
                if rng.chance(1, 3) {
                    Msg::Update
                } else {
                    Msg::Keepalive
                },
            ));
        }
    } else {
        class = "silence";
    }
    Plan {
        id,
        local,
        remote,
        role,
        class,
        blind,
        start_ms,
        sends,
        observe_ms: 0,
    }
}

// ------------------------------------------------------------------ what the remote end saw

#[derive(Clone, Debug, PartialEq)]
enum Seen {
    Open(u16),
    Keepalive,
    Update,
    Notification(u8, u8),
    Eof,
    Reset,
}

struct Outcome {
    plan: Plan,
    /// harness problem (connection could not be built, daemon's OPEN never came ...)
    aborted: Option<String>,
    accepted: bool,
    t_start: Instant,
    /// (time stamp taken BEFORE the write, message, write completed)
    writes: Vec<(Instant, Msg, bool)>,
    /// (time stamp taken after the read, what)
    reads: Vec<(Instant, Seen)>,
    t_end: Instant,
    /// the script gave up waiting for a teardown at this time
    waited_until: Option<Instant>,
}

async fn make_pair(role: Role) -> Result<(TcpStream, TcpStream), String> {
    let addr = IpAddr::V4(Ipv4Addr::LOCALHOST);
    let l = crate::verif_hooks::bind_retry(SocketAddr::new(addr, 0))
        .await
        .map_err(|e| format!("bind: {}", e))?;
    let la = l.local_addr().map_err(|e| e.to_string())?;
    let (c, s) = tokio::join!(crate::verif_hooks::connect_retry(la), async {
        tokio::time::timeout(Duration::from_secs(110), l.accept()).await
    });
    let c = c.map_err(|e| format!("connect: {}", e))?;
    let s = match s {
        Ok(Ok((s, _))) => s,
        Ok(Err(e)) => return Err(format!("accept: {}", e)),
        Err(_) => return Err("accept timed out".into()),
    };
    // remote end: RST on close (no TIME_WAIT); daemon end: default close, so that a
    // NOTIFICATION held back by Nagle is not discarded (see c07b.rs)
    let (remote_end, daemon_end) = match role {
        Role::Passive => (&c, &s),
        Role::Active => (&s, &c),
    };
    crate::verif_hooks::no_time_wait(remote_end);
    let _ = daemon_end.set_linger(None);
    let _ = remote_end.set_nodelay(true);
    Ok(match role {
        Role::Passive => (c, s),
        Role::Active => (s, c),
    })
}

fn new_global(local_hold: u16) -> Result<GlobalHandle, String> {
    let (ktx, _krx) = mpsc::unbounded_channel();
    let (btx, _brx) = mpsc::unbounded_channel();
    let mut g = Global::new(ktx, btx);
    g.asn = LOCAL_AS;
    g.router_id = Ipv4Addr::new(10, 0, 0, 1);
    let params = PeerParams {
        remote_addr: IpAddr::V4(Ipv4Addr::LOCALHOST),
        remote_port: Global::BGP_PORT,
        expected_remote_asn: REMOTE_AS,
        local_asn: 0,
        passive: true,
        rs_client: false,
        route_reflector: RouteReflectorConfig::default(),
        delete_on_disconnected: false,
        admin_down: false,
        state: SessionState::Idle,
        holdtime: local_hold as u64,
        connect_retry_time: PeerParams::DEFAULT_CONNECT_RETRY_TIME,
        multihop_ttl: None,
        ttl_security: None,
        password: None,
        families: FnvHashMap::default(),
        send_max: FnvHashMap::default(),
        prefix_limits: FnvHashMap::default(),
        graceful_restart: None,
        llgr: None,
        bfd_config: None,
        neighbor_interface: None,
        bind_interface: None,
        export_policy: None,
    };
    g.add_peer(params, None)
        .map_err(|e| format!("add_peer: {}", e))?;
    Ok(Arc::new(tokio::sync::RwLock::new(g)))
}

fn encode(codec: &mut bgp::PeerCodec, m: Msg, remote_hold: u16) -> BytesMut {
    encode_id(codec, m, remote_hold, u32::from(Ipv4Addr::new(10, 0, 0, 2)))
}

fn encode_id(codec: &mut bgp::PeerCodec, m: Msg, remote_hold: u16, remote_id: u32) -> BytesMut {
    let msg = match m {
        Msg::Open => bgp::Message::Open(bgp::Open {
            as_number: REMOTE_AS,
            holdtime: HoldTime::new(remote_hold).unwrap(),
            router_id: remote_id,
            capability: vec![
                bgp::Capability::MultiProtocol(Family::IPV4),
                bgp::Capability::FourOctetAsNumber(REMOTE_AS),
            ],
        }),
        Msg::Keepalive => bgp::Message::Keepalive,
        Msg::Update => bgp::Message::Update(bgp::Update::EndOfRib(Family::IPV4)),
    };
    let mut buf = BytesMut::with_capacity(128);
    let _ = codec.encode_to(&msg, &mut buf);
    buf
}

/// One session: real accept_connection + PeerSession::run on one side, the script on the other.
async fn session(plan: Plan, late_quick: bool, daemon: tokio::runtime::Handle) -> Outcome {
    let t_start = Instant::now();
    let mut out = Outcome {
        plan: plan.clone(),
        aborted: None,
        accepted: false,
        t_start,
        writes: Vec::new(),
        reads: Vec::new(),
        t_end: t_start,
        waited_until: None,
    };
    tokio::time::sleep(Duration::from_millis(plan.start_ms)).await;
    let (mut client, server) = match make_pair(plan.role).await {
        Ok(p) => p,
        Err(e) => {
            out.aborted = Some(e);
            return out;
        }
    };
    // hand the daemon's end over to the daemon's runtime: accept_connection + run, as the accept loop does
    let server = match server.into_std() {
        Ok(s) => s,
        Err(e) => {
            out.aborted = Some(format!("into_std: {}", e));
            return out;
        }
    };
    let (acc_tx, acc_rx) = tokio::sync::oneshot::channel::<Result<(), String>>();
    let (local_hold, role) = (plan.local, plan.role);
    let task = daemon.spawn(async move {
        let prepared = (|| {
            let server = TcpStream::from_std(server).map_err(|e| format!("from_std: {}", e))?;
            let global = new_global(local_hold)?;
            Ok::<_, String>((server, global))
        })();
        let (server, global) = match prepared {
            Ok(x) => x,
            Err(e) => {
                let _ = acc_tx.send(Err(e));
                return;
            }
        };
        let tables: TableHandle = Arc::new(TableManager::new(1));
        match accept_connection(&global, &tables, server, role).await {
            Some(sess) => {
                let _ = acc_tx.send(Ok(()));
                let (active_tx, _active_rx) = mpsc::unbounded_channel::<TcpStream>();
                sess.run(Arc::clone(&global), active_tx).await;
            }
            None => {
                let _ = acc_tx.send(Err("accept_connection refused".into()));
            }
        }
    });
    // not waited for here: when the daemon's runtime does not get round to it, the
    // remote end simply sees no OPEN (and says so below)
    let mut acc_rx = Some(acc_rx);

    let h = negotiated(plan.local, plan.remote) as u64;
    let mut codec = bgp::PeerCodec::new();
    let mut rx = BytesMut::with_capacity(4096);
    let mut next = 0usize; // next entry of plan.sends
    let mut t0: Option<Instant> = None; // when the own OPEN went out
    let mut got_open = false;
    let mut ended = false;
    let setup_deadline = Instant::now() + Duration::from_secs(40);
    loop {
        if let Some(rx) = acc_rx.as_mut() {
            match rx.try_recv() {
                Ok(Ok(())) => {
                    out.accepted = true;
                    acc_rx = None;
                }
                Ok(Err(e)) => {
                    out.aborted = Some(e);
                    break;
                }
                Err(tokio::sync::oneshot::error::TryRecvError::Empty) => {}
                Err(_) => acc_rx = None,
            }
        }
        // what is due?
        let now = Instant::now();
        let may_send = next < plan.sends.len() && (next > 0 || plan.blind || got_open);
        let due_at = if may_send {
            Some(match t0 {
                None => now,
                Some(t) => t + Duration::from_millis(plan.sends[next].0),
            })
        } else {
            None
        };
        if let Some(d) = due_at
            && d <= now
        {
            let (_, m) = plan.sends[next];
            let buf = encode(&mut codec, m, plan.remote);
            let before = Instant::now();
            let ok = client.write_all(&buf).await.is_ok();
            if m == Msg::Open {
                t0 = Some(before);
            }
            out.writes.push((before, m, ok));
            next += 1;
            continue;
        }
        // how long to wait for the daemon
        let all_sent = next >= plan.sends.len();
        let end_at = if !all_sent {
            None
        } else if h == 0 {
            t0.map(|t| t + Duration::from_millis(plan.observe_ms))
        } else {
            let last = out.writes.last().map(|w| w.0).unwrap_or(now);
            let bound = if late_quick { 2 * h + 8 } else { 3 * h + 20 };
            Some(last + Duration::from_secs(bound))
        };
        if let Some(e) = end_at
            && now >= e
        {
            out.waited_until = Some(now);
            break;
        }
        if t0.is_none() && !may_send && now > setup_deadline {
            out.aborted = Some(format!(
                "the daemon's OPEN did not arrive within 40 s (accept_connection {})",
                if out.accepted { "done" } else { "not even run" }
            ));
            break;
        }
        let mut wake = end_at.unwrap_or(now + Duration::from_secs(1));
        if let Some(d) = due_at {
            wake = wake.min(d);
        }
        if t0.is_none() {
            wake = wake.min(now + Duration::from_millis(500));
        }
        let wait = wake
            .saturating_duration_since(now)
            .max(Duration::from_millis(1));
        match tokio::time::timeout(wait, client.read_buf(&mut rx)).await {
            Err(_) => {}
            Ok(Ok(0)) => {
                out.reads.push((Instant::now(), Seen::Eof));
                ended = true;
            }
            Ok(Ok(_)) => {}
            Ok(Err(_)) => {
                out.reads.push((Instant::now(), Seen::Reset));
                ended = true;
            }
        }
        let t_read = Instant::now();
        let mut parsed = Vec::new();
        loop {
            match codec.try_parse(&mut rx) {
                Ok(Some(m)) => parsed.push(match m {
                    bgp::ParsedMessage::Open(o) => {
                        got_open = true;
                        Seen::Open(o.holdtime.seconds())
                    }
                    bgp::ParsedMessage::Keepalive => Seen::Keepalive,
                    bgp::ParsedMessage::Update(_) => Seen::Update,
                    bgp::ParsedMessage::Notification(n) => {
                        Seen::Notification(n.notification_code(), n.notification_subcode())
                    }
                    _ => continue,
                }),
                Ok(None) => break,
                Err(_) => {
                    rx.clear();
                    break;
                }
            }
        }
        // messages parsed from the bytes of this read come before the EOF noted above
        let eof = if ended { out.reads.pop() } else { None };
        for s in parsed {
            if matches!(s, Seen::Notification(..)) {
                ended = true;
            }
            out.reads.push((t_read, s));
        }
        if let Some(e) = eof {
            out.reads.push(e);
        }
        if ended {
            break;
        }
    }
    out.t_end = Instant::now();
    // cancel before closing (a session must never be left polling a closed socket)
    if !task.is_finished() {
        task.abort();
    }
    let _ = tokio::time::timeout(Duration::from_secs(2), task).await;
    drop(client);
    out
}

// ------------------------------------------------------------------ collision pairs

/// One remote end of a two-connection session.
struct RemoteEnd {
    client: TcpStream,
    codec: bgp::PeerCodec,
    rx: BytesMut,
    writes: Vec<(Instant, Msg, bool)>,
    reads: Vec<(Instant, Seen)>,
    ended: bool,
}

impl RemoteEnd {
    fn new(client: TcpStream) -> RemoteEnd {
        RemoteEnd {
            client,
            codec: bgp::PeerCodec::new(),
            rx: BytesMut::with_capacity(4096),
            writes: Vec::new(),
            reads: Vec::new(),
            ended: false,
        }
    }
    async fn send(&mut self, m: Msg, hold: u16, id: u32) {
        let buf = encode_id(&mut self.codec, m, hold, id);
        let before = Instant::now();
        let ok = self.client.write_all(&buf).await.is_ok();
        self.writes.push((before, m, ok));
    }
    fn absorb(&mut self, r: std::io::Result<usize>) {
        let t = Instant::now();
        let end = match r {
            Ok(0) => Some(Seen::Eof),
            Ok(_) => None,
            Err(_) => Some(Seen::Reset),
        };
        loop {
            match self.codec.try_parse(&mut self.rx) {
                Ok(Some(m)) => {
                    let s = match m {
                        bgp::ParsedMessage::Open(o) => Seen::Open(o.holdtime.seconds()),
                        bgp::ParsedMessage::Keepalive => Seen::Keepalive,
                        bgp::ParsedMessage::Update(_) => Seen::Update,
                        bgp::ParsedMessage::Notification(n) => {
                            self.ended = true;
                            Seen::Notification(n.notification_code(), n.notification_subcode())
                        }
                        _ => continue,
                    };
                    self.reads.push((t, s));
                }
                Ok(None) => break,
                Err(_) => {
                    self.rx.clear();
                    break;
                }
            }
        }
        if let Some(e) = end {
            self.ended = true;
            self.reads.push((t, e));
        }
    }
    fn saw(&self, f: impl Fn(&Seen) -> bool) -> bool {
        self.reads.iter().any(|r| f(&r.1))
    }
}

/// wait (at most `wait`) for bytes on either connection
async fn poll_both(a: &mut RemoteEnd, b: &mut RemoteEnd, wait: Duration) {
    tokio::select! {
        r = a.client.read_buf(&mut a.rx), if !a.ended => a.absorb(r),
        r = b.client.read_buf(&mut b.rx), if !b.ended => b.absorb(r),
        _ = tokio::time::sleep(wait) => {}
    }
}

#[derive(Clone, Debug)]
struct CollPlan {
    id: u64,
    local: u16,
    remote: u16,
    first_role: Role,
    remote_id: u32,
    /// after the collision the survivor's remote end sends one KEEPALIVE (then silence) or nothing
    keepalive_after: bool,
    start_ms: u64,
}

fn make_coll_plan(rng: &mut Rng, id: u64) -> CollPlan {
    CollPlan {
        id,
        local: *rng.pick(&[3u16, 4, 6, 9]),
        remote: *rng.pick(&[3u16, 5]),
        first_role: if rng.bool() {
            Role::Active
        } else {
            Role::Passive
        },
        // local identifier is 10.0.0.1
        remote_id: if rng.bool() {
            u32::from(Ipv4Addr::new(10, 0, 0, 2))
        } else {
            u32::from(Ipv4Addr::new(9, 0, 0, 9))
        },
        keepalive_after: rng.chance(1, 3),
        start_ms: rng.range(0, 2500),
    }
}

fn spawn_daemon_side(
    daemon: &tokio::runtime::Handle,
    global: GlobalHandle,
    tables: TableHandle,
    server: std::net::TcpStream,
    role: Role,
) -> tokio::task::JoinHandle<()> {
    daemon.spawn(async move {
        let Ok(server) = TcpStream::from_std(server) else {
            return;
        };
        if let Some(sess) = accept_connection(&global, &tables, server, role).await {
            let (active_tx, _active_rx) = mpsc::unbounded_channel::<TcpStream>();
            sess.run(Arc::clone(&global), active_tx).await;
        }
    })
}

/// Two connections of one neighbour collide; the survivor's timers are then watched.
/// Returns the survivor's history in the shape `judge` understands, and counters.
async fn collision_session(
    plan: CollPlan,
    late_quick: bool,
    daemon: tokio::runtime::Handle,
) -> (Outcome, Vec<&'static str>) {
    let t_start = Instant::now();
    let mut counts: Vec<&'static str> = Vec::new();
    let as_plan = |role: Role, class: &'static str| Plan {
        id: plan.id,
        local: plan.local,
        remote: plan.remote,
        role,
        class,
        blind: false,
        start_ms: plan.start_ms,
        sends: Vec::new(),
        observe_ms: 0,
    };
    let mut out = Outcome {
        plan: as_plan(plan.first_role, "collision"),
        aborted: None,
        accepted: false,
        t_start,
        writes: Vec::new(),
        reads: Vec::new(),
        t_end: t_start,
        waited_until: None,
    };
    tokio::time::sleep(Duration::from_millis(plan.start_ms)).await;
    let global = match new_global(plan.local) {
        Ok(g) => g,
        Err(e) => {
            out.aborted = Some(e);
            return (out, counts);
        }
    };
    let tables: TableHandle = Arc::new(TableManager::new(1));
    let second_role = if plan.first_role == Role::Active {
        Role::Passive
    } else {
        Role::Active
    };
    let mut ends: Vec<RemoteEnd> = Vec::new();
    let mut tasks = Vec::new();
    let mut servers = Vec::new();
    for role in [plan.first_role, second_role] {
        match make_pair(role).await {
            Ok((c, s)) => match s.into_std() {
                Ok(s) => {
                    ends.push(RemoteEnd::new(c));
                    servers.push((s, role));
                }
                Err(e) => {
                    out.aborted = Some(format!("into_std: {}", e));
                    return (out, counts);
                }
            },
            Err(e) => {
                out.aborted = Some(e);
                return (out, counts);
            }
        }
    }
    let mut second = ends.pop().unwrap();
    let mut first = ends.pop().unwrap();
    let (s2, _) = servers.pop().unwrap();
    let (s1, _) = servers.pop().unwrap();
    let setup = Instant::now() + Duration::from_secs(40);
    macro_rules! wait_for {
        ($cond:expr, $what:expr) => {
            loop {
                if $cond {
                    break true;
                }
                if Instant::now() > setup {
                    out.aborted = Some(format!(
                        "collision set-up: {} did not happen within 40 s",
                        $what
                    ));
                    break false;
                }
                poll_both(&mut first, &mut second, Duration::from_millis(200)).await;
            }
        };
    }
    // first connection up to OpenConfirm (the remote end has read the KEEPALIVE that answers its OPEN)
    tasks.push(spawn_daemon_side(
        &daemon,
        Arc::clone(&global),
        Arc::clone(&tables),
        s1,
        plan.first_role,
    ));
    let mut ok = wait_for!(
        first.saw(|s| matches!(s, Seen::Open(_))) || first.ended,
        "the daemon's OPEN on the first connection"
    );
    if ok {
        first.send(Msg::Open, plan.remote, plan.remote_id).await;
        ok = wait_for!(
            first.saw(|s| *s == Seen::Keepalive) || first.ended,
            "OpenConfirm of the first connection"
        );
    }
    // second connection: its OPEN makes the collision
    if ok {
        tasks.push(spawn_daemon_side(
            &daemon,
            Arc::clone(&global),
            Arc::clone(&tables),
            s2,
            second_role,
        ));
        ok = wait_for!(
            second.saw(|s| matches!(s, Seen::Open(_))) || second.ended,
            "the daemon's OPEN on the second connection"
        );
    }
    if ok {
        second.send(Msg::Open, plan.remote, plan.remote_id).await;
        ok = wait_for!(
            first.ended || second.ended,
            "the collision to be resolved (one side closed)"
        );
    }
    if ok && first.ended && second.ended {
        // give the other end a moment: both gone is not what this scenario is about (C07's business)
        out.aborted = Some("both connections ended".into());
        ok = false;
    }
    if ok {
        let second_won = first.ended;
        counts.push(if second_won {
            "real:collision:second-to-open-confirm-won"
        } else {
            "real:collision:second-to-open-confirm-lost"
        });
        let (surv, loser, srole) = if second_won {
            (&mut second, &first, second_role)
        } else {
            (&mut first, &second, plan.first_role)
        };
        if loser.saw(|s| *s == Seen::Notification(6, 7)) {
            counts.push("real:collision:loser-read-cease");
        }
        out.plan = as_plan(
            srole,
            if plan.keepalive_after {
                "collision-survivor-keepalive"
            } else {
                "collision-survivor-silent"
            },
        );
        out.accepted = true;
        if plan.keepalive_after {
            surv.send(Msg::Keepalive, plan.remote, plan.remote_id).await;
        }
        // silence: watch the daemon's KEEPALIVEs and wait for Hold Timer Expired
        let h = negotiated(plan.local, plan.remote) as u64;
        let last = surv.writes.last().map(|w| w.0).unwrap_or_else(Instant::now);
        let bound = if late_quick { 2 * h + 8 } else { 3 * h + 20 };
        let until = last + Duration::from_secs(bound);
        while !surv.ended {
            let now = Instant::now();
            if now >= until {
                out.waited_until = Some(now);
                break;
            }
            let wait = until
                .saturating_duration_since(now)
                .min(Duration::from_millis(500));
            match tokio::time::timeout(wait, surv.client.read_buf(&mut surv.rx)).await {
                Ok(r) => surv.absorb(r),
                Err(_) => {}
            }
        }
        out.writes = std::mem::take(&mut surv.writes);
        out.reads = std::mem::take(&mut surv.reads);
    }
    out.t_end = Instant::now();
    for t in &tasks {
        if !t.is_finished() {
            t.abort();
        }
    }
    for t in tasks {
        let _ = tokio::time::timeout(Duration::from_secs(2), t).await;
    }
    drop(first);
    drop(second);
    (out, counts)
}

// ------------------------------------------------------------------ judging one session

struct Finding {
    sig: String,
    what: String,
}

fn secs(a: Instant, b: Instant) -> f64 {
    b.saturating_duration_since(a).as_secs_f64()
}

fn judge(o: &Outcome, hb: &Ctx, rep: &mut Report, findings: &mut Vec<Finding>) {
    let p = &o.plan;
    let h = negotiated(p.local, p.remote) as f64;
    let k = (negotiated(p.local, p.remote) / 3) as f64;
    let pair = format!("{}/{}", p.local, p.remote);
    let mut fail = |sig: String, what: String| findings.push(Finding { sig, what });
    if let Some(why) = &o.aborted {
        rep.count("real:session-aborted");
        eprintln!("[C08b] session {} ({}) aborted: {}", p.id, pair, why);
        return;
    }
    rep.count(&format!("real:sessions:pair-{}", pair));
    rep.count(&format!("real:sessions:class-{}", p.class));
    rep.count(if p.blind {
        "real:sessions:open-sent-blind"
    } else {
        "real:sessions:open-sent-after-daemons"
    });
    let Some(t0) = o
        .writes
        .iter()
        .find(|w| w.1 == Msg::Open && w.2)
        .map(|w| w.0)
    else {
        rep.count("real:unjudged:own-open-not-written");
        return;
    };
    // ---- what the daemon advertised
    match o.reads.iter().find_map(|r| {
        if let Seen::Open(x) = r.1 {
            Some(x)
        } else {
            None
        }
    }) {
        Some(x) if x == p.local => rep.count("real:open-advertises-configured-hold"),
        Some(x) => fail(
            "C08/real/negotiated/open-advertises-other-holdtime".into(),
            format!(
                "configured hold time {} but the daemon's OPEN says {}",
                p.local, x
            ),
        ),
        None => {}
    }
    let lag_session = hb.lag(o.t_start, o.t_end);
    // the first thing that ended the session, as the remote end saw it
    let end = o
        .reads
        .iter()
        .find(|r| matches!(r.1, Seen::Notification(..) | Seen::Eof | Seen::Reset));
    // messages of the daemon that prove a running keepalive timer / fill the gaps
    let from_daemon: Vec<Instant> = o
        .reads
        .iter()
        .filter(|r| matches!(r.1, Seen::Keepalive | Seen::Update))
        .map(|r| r.0)
        .collect();
    let n_keepalives = o.reads.iter().filter(|r| r.1 == Seen::Keepalive).count();

    if h == 0.0 {
        // ---------------- zero disables
        rep.eval();
        rep.count("clause:real:zero:observed");
        match end {
            Some((t, Seen::Notification(4, sc))) => fail(
                "C08/real/zero/hold-timer-expired".into(),
                format!(
                    "negotiated hold time 0 ({}), yet NOTIFICATION 4/{} was read {:.3}s after the own OPEN",
                    pair,
                    sc,
                    secs(t0, *t)
                ),
            ),
            Some((t, Seen::Eof)) => fail(
                "C08/real/zero/closed".into(),
                format!(
                    "negotiated hold time 0 ({}), yet the daemon closed the connection {:.3}s after the own OPEN",
                    pair,
                    secs(t0, *t)
                ),
            ),
            Some((_, Seen::Notification(c, sc))) => {
                rep.count(&format!("real:unjudged:other-notification-{}-{}", c, sc))
            }
            Some(_) => rep.count("real:unjudged:reset"),
            None => rep.count("real:zero:stayed-up"),
        }
        if n_keepalives > 1 {
            fail(
                "C08/real/zero/keepalive-timer-runs".into(),
                format!(
                    "negotiated hold time 0 ({}), yet {} KEEPALIVEs were read (one answers the OPEN)",
                    pair, n_keepalives
                ),
            );
        }
        return;
    }

    // ---------------- negotiated > 0
    let completed: Vec<&(Instant, Msg, bool)> = o.writes.iter().filter(|w| w.2).collect();
    match end {
        Some((tx, what)) => {
            // the last message whose write STARTED before the end was read
            let last = completed.iter().rev().find(|w| w.0 <= *tx).copied();
            let Some((tw, m, _)) = last else { return };
            let margin = secs(*tw, *tx) - h;
            rep.eval();
            let hold_expiry_like = matches!(what, Seen::Notification(4, _) | Seen::Eof);
            if !hold_expiry_like {
                match what {
                    Seen::Notification(c, sc) => {
                        rep.count(&format!("real:unjudged:other-notification-{}-{}", c, sc))
                    }
                    _ => rep.count("real:unjudged:reset"),
                }
                return;
            }
            rep.count("clause:real:expiry:observed");
            rep.count(match margin {
                x if x < -EPS => "real:expiry-margin:EARLY",
                x if x < 0.010 => "real:expiry-margin:0-10ms",
                x if x < 0.050 => "real:expiry-margin:10-50ms",
                x if x < 0.250 => "real:expiry-margin:50-250ms",
                x if x < 1.0 => "real:expiry-margin:250ms-1s",
                _ => "real:expiry-margin:over-1s",
            });
            if margin < -EPS {
                let lag = hb.lag(*tw, *tx);
                // the OPEN exchange itself starts the timer: nothing can excuse an expiry before OPEN+hold
                let proven = *m == Msg::Open || lag.is_some_and(|l| l < LAG_OK_EARLY);
                if proven {
                    fail(
                        format!("C08/real/early-expiry/after-{}", m.name()),
                        format!(
                            "pair {} (negotiated {}): the session was torn down ({:?}) only {:.3}s after the remote end started writing its last {} \
                             ({:.3}s after its OPEN); heartbeat lag in that interval {:?}",
                            pair,
                            h,
                            what,
                            secs(*tw, *tx),
                            m.name(),
                            secs(t0, *tx),
                            lag
                        ),
                    );
                } else {
                    rep.count("real:unjudged:early-expiry-without-responsiveness-proof");
                }
            } else {
                // (5) the NOTIFICATION
                match what {
                    Seen::Notification(4, 0) => rep.count("real:expiry:notification-4-0"),
                    Seen::Notification(4, sc) => fail(
                        "C08/real/notification/subcode".into(),
                        format!(
                            "Hold Timer Expired NOTIFICATION with subcode {} (pair {})",
                            sc, pair
                        ),
                    ),
                    _ => fail(
                        "C08/real/notification/closed-without-hold-timer-expired".into(),
                        format!(
                            "pair {}: after {:.3}s of silence the daemon closed without a Hold Timer Expired NOTIFICATION",
                            pair,
                            secs(*tw, *tx)
                        ),
                    ),
                }
                // expiry much later than the negotiated value (e.g. the larger of the two in force)
                if let Some(l) = hb.lag(*tw, *tx)
                    && l < LAG_OK_EARLY
                {
                    if margin > 2.0 + 3.0 * l {
                        fail(
                            "C08/real/late-expiry".into(),
                            format!(
                                "pair {} (negotiated {}): Hold Timer Expired came {:.3}s after the last message, heartbeat lag {:.3}s",
                                pair,
                                h,
                                secs(*tw, *tx),
                                l
                            ),
                        );
                    }
                } else if margin > 2.0 {
                    rep.count("real:unjudged:late-expiry-without-responsiveness-proof");
                }
            }
        }
        None => {
            // (4) no teardown although the remote end has been silent for the generous bound
            rep.eval();
            let last = completed.last().map(|w| w.0).unwrap_or(t0);
            let waited = o.waited_until.map(|t| secs(last, t)).unwrap_or(0.0);
            match lag_session {
                Some(l) if l < LAG_OK_LATE => fail(
                    "C08/real/no-teardown-after-silence".into(),
                    format!(
                        "pair {} (negotiated {}): still up {:.1}s after the last message of the remote end; max heartbeat lag {:.3}s",
                        pair, h, waited, l
                    ),
                ),
                _ => rep.count("real:unjudged:no-teardown-without-responsiveness-proof"),
            }
        }
    }

    // ---------------- keepalive cadence follows the negotiated value
    // gaps between consecutive KEEPALIVE/UPDATE of the daemon, from the own OPEN to the end
    let t_last = end.map(|e| e.0).or(o.waited_until).unwrap_or(o.t_end);
    let mut marks = vec![t0];
    marks.extend(from_daemon.iter().copied().filter(|t| *t <= t_last));
    marks.push(t_last);
    let mut worst: Option<(f64, Instant, Instant)> = None;
    for w in marks.windows(2) {
        let g = secs(w[0], w[1]);
        if worst.is_none_or(|x| g > x.0) {
            worst = Some((g, w[0], w[1]));
        }
    }
    // how long after the daemon's previous KEEPALIVE / UPDATE each periodic KEEPALIVE came
    // (the first KEEPALIVE answers the OPEN; an UPDATE is not timer driven)
    let daemon_msgs: Vec<(Instant, bool)> = o
        .reads
        .iter()
        .filter(|r| matches!(r.1, Seen::Keepalive | Seen::Update))
        .map(|r| (r.0, r.1 == Seen::Keepalive))
        .collect();
    for w in daemon_msgs.windows(2) {
        if !w[1].1 {
            continue;
        }
        let g = secs(w[0].0, w[1].0);
        rep.eval();
        rep.count(match g - k {
            x if x < -0.5 => "real:keepalive-interval:more-than-500ms-short",
            x if x < -EPS => "real:keepalive-interval:short",
            x if x < 0.050 => "real:keepalive-interval:on-time-50ms",
            x if x < 0.500 => "real:keepalive-interval:late-under-500ms",
            _ => "real:keepalive-interval:late-over-500ms",
        });
    }
    if let Some((g, a, b)) = worst {
        rep.count("clause:real:keepalive-gap:observed");
        if g > k + 1.2 {
            match hb.lag(a, b) {
                Some(l) if l < LAG_OK_EARLY && g > k + 1.2 + 3.0 * l => fail(
                    format!(
                        "C08/real/keepalive-gap/{}",
                        if from_daemon.is_empty() {
                            "none-at-all"
                        } else {
                            "too-long"
                        }
                    ),
                    format!(
                        "pair {} (negotiated {}, keepalive {}): {:.3}s without a KEEPALIVE/UPDATE from the daemon while the session was up \
                         ({} received in all); heartbeat lag {:.3}s",
                        pair,
                        h,
                        k,
                        g,
                        from_daemon.len(),
                        l
                    ),
                ),
                _ => rep.count("real:unjudged:keepalive-gap-without-responsiveness-proof"),
            }
        }
    }
}

fn witness(o: &Outcome, hb: &Ctx) -> Json {
    let p = &o.plan;
    let t0 = o.t_start;
    let mut ev: Vec<(f64, String)> = Vec::new();
    for (t, m, ok) in &o.writes {
        ev.push((
            secs(t0, *t),
            format!(
                "remote writes {}{}",
                m.name(),
                if *ok { "" } else { " (failed)" }
            ),
        ));
    }
    for (t, s) in &o.reads {
        ev.push((secs(t0, *t), format!("remote reads {:?}", s)));
    }
    ev.sort_by(|a, b| a.0.partial_cmp(&b.0).unwrap());
    Json::obj(vec![
        ("part", Json::s("real-time")),
        ("session", Json::i(p.id)),
        ("local_hold", Json::i(p.local)),
        ("remote_hold", Json::i(p.remote)),
        ("role", Json::s(format!("{:?}", p.role))),
        ("class", Json::s(p.class)),
        ("open_sent_blind", Json::Bool(p.blind)),
        (
            "planned_sends_ms",
            Json::strs(p.sends.iter().map(|(t, m)| format!("{}:{}", t, m.name()))),
        ),
        (
            "events_s",
            Json::strs(ev.into_iter().map(|(t, s)| format!("{:.3} {}", t, s))),
        ),
        (
            "max_heartbeat_lag_s",
            Json::Num(hb.lag(o.t_start, o.t_end).unwrap_or(-1.0)),
        ),
    ])
}

#[test]
fn run() {
    let params = Params::from_args_env();
    let mut rep = Report::new("C08", &params);
    rep.max_samples = 3;
    let n = params.get_u64("sessions", params.n(160, 600));
    let workers = params.get_u64("workers", 4) as usize;
    let thorough = params.thorough();
    let build = |w: usize, name: &str| {
        tokio::runtime::Builder::new_multi_thread()
            .worker_threads(w)
            .thread_name(name)
            .enable_all()
            .build()
    };
    let (daemon_rt, harness_rt) = match (build(workers, "c08b-daemon"), build(3, "c08b-remote")) {
        (Ok(a), Ok(b)) => (a, b),
        _ => {
            rep.inconclusive("harness: tokio runtime");
            let _ = rep.finish();
            return;
        }
    };
    let mut rng = Rng::new(params.seed ^ 0xC08B_C08B);
    let mut plans: Vec<Plan> = (0..n).map(|i| make_plan(&mut rng, i, thorough)).collect();
    // thorough: a few sessions with negotiated 0 that outlive the 240 s OpenSent hold timer
    let long_zero = params.get_u64("long_zero", if thorough { 3 } else { 0 });
    for i in 0..long_zero {
        let mut p = make_plan(&mut rng, n + i, thorough);
        p.local = 0;
        p.remote = [0u16, 30, 3][i as usize % 3];
        p.class = "zero";
        p.sends = vec![
            (0, Msg::Open),
            (100, Msg::Keepalive),
            (100_000, Msg::Keepalive),
        ];
        p.observe_ms = 250_000;
        plans.push(p);
    }
    let n = plans.len() as u64;
    let t_begin = Instant::now();
    let ctx = Arc::new(Ctx {
        daemon: daemon_rt.handle().clone(),
        hb_daemon: Heartbeat::start(daemon_rt.handle(), workers * 2),
        hb_harness: Heartbeat::start(harness_rt.handle(), 4),
    });
    let n_coll = params.get_u64("collisions", if thorough { 150 } else { 60 });
    let coll_plans: Vec<CollPlan> = (0..n_coll)
        .map(|i| make_coll_plan(&mut rng, 1_000_000 + i))
        .collect();
    let n = n + n_coll;
    let (outcomes, coll_counts) = harness_rt.block_on(async {
        let mut handles = Vec::new();
        for p in plans {
            handles.push(tokio::spawn(session(p, !thorough, ctx.daemon.clone())));
        }
        let mut coll_handles = Vec::new();
        for p in coll_plans {
            coll_handles.push(tokio::spawn(collision_session(
                p,
                !thorough,
                ctx.daemon.clone(),
            )));
        }
        let mut outs = Vec::new();
        let mut coll_counts: Vec<&'static str> = Vec::new();
        for h in coll_handles {
            match tokio::time::timeout(Duration::from_secs(600), h).await {
                Ok(Ok((o, c))) => {
                    outs.push(o);
                    coll_counts.extend(c);
                }
                Ok(Err(e)) => eprintln!("[C08b] collision script failed: {}", e),
                Err(_) => eprintln!("[C08b] collision script did not finish"),
            }
        }
        for h in handles {
            match tokio::time::timeout(Duration::from_secs(600), h).await {
                Ok(Ok(o)) => outs.push(o),
                Ok(Err(e)) => eprintln!("[C08b] session script failed: {}", e),
                Err(_) => eprintln!("[C08b] session script did not finish"),
            }
        }
        // one more beat after the last session, so that its whole life is covered
        tokio::time::sleep(Duration::from_millis(150)).await;
        (outs, coll_counts)
    });
    for c in coll_counts {
        rep.count(c);
    }
    let t_finish = Instant::now();
    ctx.hb_daemon.stop.store(true, Ordering::Relaxed);
    ctx.hb_harness.stop.store(true, Ordering::Relaxed);
    rep.count_n("real:sessions-planned", n);
    rep.count_n("real:sessions-finished", outcomes.len() as u64);
    rep.max(
        "real:heartbeat-lag-ms:daemon-runtime",
        (ctx.hb_daemon.overall() * 1000.0) as u64,
    );
    rep.max(
        "real:heartbeat-lag-ms:remote-runtime",
        (ctx.hb_harness.overall() * 1000.0) as u64,
    );
    // ---- a daemon that starves its own runtime: its timers cannot run at all
    let daemon_silence = ctx.hb_daemon.longest_silence(t_begin, t_finish);
    let harness_silence = ctx.hb_harness.longest_silence(t_begin, t_finish);
    rep.max(
        "real:heartbeat-silence-ms:daemon-runtime",
        (daemon_silence * 1000.0) as u64,
    );
    rep.max(
        "real:heartbeat-silence-ms:remote-runtime",
        (harness_silence * 1000.0) as u64,
    );
    let mut starved = false;
    if daemon_silence > 8.0 {
        if harness_silence < 0.5 && ctx.hb_harness.overall() < 0.5 {
            starved = true;
            let got_open = outcomes
                .iter()
                .filter(|o| o.reads.iter().any(|r| matches!(r.1, Seen::Open(_))))
                .count();
            rep.violation(
                "C08/real/session-tasks-starve-the-runtime",
                &format!(
                    "no task of the daemon's runtime ({} workers, {} sessions) ran for {:.1}s while the runtime of the remote ends on the same \
                     machine never lagged more than {:.3}s: the session tasks do not yield, so neither hold nor keepalive timers can fire \
                     ({} of {} remote ends ever read an OPEN)",
                    workers,
                    n,
                    daemon_silence,
                    ctx.hb_harness.overall().max(harness_silence),
                    got_open,
                    outcomes.len()
                ),
                Json::obj(vec![
                    ("part", Json::s("real-time")),
                    ("daemon_runtime_longest_silence_s", Json::Num(daemon_silence)),
                    ("remote_runtime_longest_silence_s", Json::Num(harness_silence)),
                    ("sessions", Json::i(n as i64)),
                    ("remote_ends_that_read_an_open", Json::i(got_open as i64)),
                ]),
            );
        } else {
            rep.count("real:unjudged:daemon-runtime-silent-but-machine-not-proven-responsive");
        }
    }
    let mut aborted = 0u64;
    for o in &outcomes {
        if o.aborted.is_some() {
            aborted += 1;
        }
        let mut findings = Vec::new();
        judge(o, &ctx, &mut rep, &mut findings);
        if o.aborted.is_none() {
            let key = format!(
                "{:?}",
                (
                    o.plan.local,
                    o.plan.remote,
                    o.plan.role,
                    o.plan.blind,
                    &o.plan.sends,
                    o.plan.class,
                    if o.plan.sends.is_empty() {
                        o.plan.id
                    } else {
                        0
                    }
                )
            );
            rep.nontrivial(fnv64(key.as_bytes()));
        }
        for f in findings {
            // the survivor of a collision is a situation of its own
            let sig = if o.plan.class.starts_with("collision") {
                f.sig.replacen("C08/real/", "C08/real/collision/", 1)
            } else {
                f.sig
            };
            rep.violation(&sig, &f.what, witness(o, &ctx));
        }
        if rep.want_sample() && o.aborted.is_none() && o.plan.class == "kept-alive" {
            rep.sample(witness(o, &ctx));
        }
    }
    if !starved && ((outcomes.len() as u64) < n || aborted * 5 > n) {
        rep.inconclusive(&format!(
            "{} of {} real-time sessions finished, {} aborted for harness reasons",
            outcomes.len(),
            n,
            aborted
        ));
    }
    let _ = rep.finish();
    // worker threads captured by a non-yielding task cannot be joined
    harness_rt.shutdown_timeout(Duration::from_secs(1));
    daemon_rt.shutdown_timeout(Duration::from_secs(1));
}
