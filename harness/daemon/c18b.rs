//! C18, second half: the same concurrent subscribe / write workload as c18.rs, but the
//! snapshot phase (everything received before EndOfSnapshot) is folded by the daemon's
//! own `apply_snapshot` (private to daemon/src/bmp.rs, hence this module lives there),
//! exactly as `BmpClient::serve` folds it.  A defect in that fold (e.g. first event wins
//! instead of last) is invisible to c18.rs, which uses its own fold.
use super::super::{SnapshotMap, apply_snapshot};
#[allow(unused_imports)]
use crate::verif_common as common;

#[path = "/verif/harness/daemon/c18.rs"]
mod core;

fn daemon_fold(
    changes: Vec<crate::table_manager::AdjRibInChange>,
) -> Vec<crate::table_manager::AdjRibInChange> {
    let mut snapshot: SnapshotMap = Default::default();
    for c in changes {
        apply_snapshot(&mut snapshot, c);
    }
    snapshot
        .into_values()
        .flat_map(|m| m.into_values())
        .collect()
}

#[test]
fn run() {
    let _ = core::SNAPSHOT_FOLDER.set(daemon_fold);
    core::run_entry();
}
