//! C19 (daemon-side half, BMP) + C18's peer-up / peer-down pairing clause.
//!
//! Compiled as `crate::bmp::verif::c19b`.  Three workloads:
//!
//! * **conv** — the private converters of daemon/src/bmp.rs
//!   (`adj_rib_in_to_bmp_update`, `adj_rib_out_to_bmp_update`, `loc_rib_to_bmp`,
//!   `loc_rib_peer_up`, `apply_snapshot`, `flush_peer_snapshot`,
//!   `session_down_to_bmp`) fed with the events of a real, populated
//!   `TableManager`; the messages go through a session-long `BmpCodec` as in
//!   `serve`, the bytes are read by the independent RFC 7854 / 8671 / 9069 reader.
//! * **e2e** — the real daemon (`crate::event::main` with a generated config:
//!   the only way to obtain a `Global` from outside `event`), scripted remote BGP
//!   speakers on 127.0.0.x / ::1 that really exchange OPEN / KEEPALIVE / UPDATE /
//!   NOTIFICATION with it, and local TCP listeners playing BMP stations that the
//!   daemon's own `BmpClient::try_connect` → `serve` loop connects to (AddBmp over
//!   the daemon's gRPC API, every monitoring policy).  Everything read from the
//!   station sockets is judged: framing, per-peer headers, PeerUp against the
//!   OPENs that were really on the wire, PeerDown against the NOTIFICATION that
//!   was really sent / received, RouteMonitoring folded per (peer, RIB view,
//!   family, prefix, path id) against what the speakers announced.
//! * **c18_peer_tracking** (reports under C18) — `track_peer_up/down`,
//!   `send_peer_up/down` driven directly over a loopback `Framed`, and the serve
//!   loop's own handling in e2e histories with session churn and stations that
//!   subscribe at random points: every PeerDown on the wire must close a PeerUp.
use super::super::*;
use super::common::*;
#[path = "/verif/harness/daemon/c19_shared.rs"]
mod shared;
use shared::*;

use crate::api;
use crate::table_manager::TableManager;
use rustybgp_packet::bgp::{
    Attribute, Capability, FamilyState, HoldTime, Ipv4Net, Ipv6Net, Nexthop, Nlri, Notification,
    Open, ParsedMessage, ParsedUpdate, PathNlri, PeerCodec,
};
use rustybgp_table as table;
use std::collections::{BTreeMap, BTreeSet};
use std::net::Ipv6Addr;
use std::sync::Mutex;
use std::time::{Duration, Instant};
use tokio::io::{AsyncReadExt, AsyncWriteExt};
use tokio_util::codec::Encoder as _;

const LOCAL_ASN_2: u32 = 65000;

// ------------------------------------------------------------------ findings

struct Finding {
    sig: String,
    what: String,
    detail: String,
    bytes: Vec<u8>,
}

fn finding(kind: &str, clause: &str, what: &str, detail: String, bytes: &[u8]) -> Finding {
    let sig = if clause.starts_with("panic/") {
        format!("C19/{}", clause)
    } else {
        format!("C19/bmpd/{}/{}", kind, clause)
    };
    Finding {
        sig,
        what: what.to_string(),
        detail,
        bytes: bytes.to_vec(),
    }
}

fn report(rep: &mut Report, f: Finding, input: Json, hseed: u64) {
    rep.count("alarms");
    if rep.has_violation(&f.sig) {
        rep.violation(&f.sig, &f.what, Json::Null);
        return;
    }
    rep.violation(
        &f.sig,
        &f.what,
        Json::obj(vec![
            ("input", input),
            ("observed", Json::s(f.detail)),
            ("emitted_bytes", bytes_json(&f.bytes)),
            ("history_seed", Json::Int(hseed as i128)),
            ("seed", Json::Int(rep.params.seed as i128)),
        ]),
    );
}

// ------------------------------------------------------------------ independent reading of one BMP message

#[derive(Clone)]
enum StMsg {
    Initiation,
    PeerUp {
        hdr: PeerHdr,
        local16: [u8; 16],
        lport: u16,
        rport: u16,
        sent: Open,
        recv: Open,
    },
    PeerDown {
        hdr: PeerHdr,
        reason: u8,
        data: Vec<u8>,
    },
    Route {
        hdr: PeerHdr,
        pdu: Vec<u8>,
    },
    Other(u8),
}

/// Structural reading of one BMP message body (the common header was already
/// consumed by `read_bmp`).  Err(kind, clause, detail).
fn read_bmp_msg(
    ps: &mut Parsers,
    typ: u8,
    body: &[u8],
) -> Result<StMsg, (&'static str, String, String)> {
    match typ {
        4 => match read_tlvs(body) {
            Ok(_) => Ok(StMsg::Initiation),
            Err(d) => Err(("initiation", "tlv-framing".into(), d)),
        },
        3 => {
            let k = "peer-up";
            let hdr = read_peer_header(body).map_err(|(c, d)| (k, c, d))?;
            if body.len() < 62 {
                return Err((k, "short".into(), format!("{} bytes", body.len())));
            }
            let mut local16 = [0u8; 16];
            local16.copy_from_slice(&body[42..58]);
            if !hdr.v() && local16[..12].iter().any(|x| *x != 0) {
                return Err((
                    k,
                    "local-address-family".into(),
                    format!(
                        "V=0 but the local address {} is not a zero-padded IPv4 address",
                        hex(&local16)
                    ),
                ));
            }
            let lport = u16::from_be_bytes([body[58], body[59]]);
            let rport = u16::from_be_bytes([body[60], body[61]]);
            let (pdus, err) = split_pdus(&body[62..]);
            if pdus.len() < 2 {
                return Err((
                    k,
                    "open-framing".into(),
                    format!(
                        "{} well-framed PDUs where two OPENs are required; framing stops: {:?}",
                        pdus.len(),
                        err
                    ),
                ));
            }
            if pdus[0][18] != 1 || pdus[1][18] != 1 {
                return Err((
                    k,
                    "open-type".into(),
                    format!("PDU types {} {}", pdus[0][18], pdus[1][18]),
                ));
            }
            let used = pdus[0].len() + pdus[1].len();
            if let Err(d) = read_tlvs(&body[62 + used..]) {
                return Err((k, "trailing-bytes".into(), d));
            }
            let mut opens = Vec::new();
            for (i, p) in pdus[..2].iter().enumerate() {
                match ps.parse(p, false, false) {
                    Ok(ParsedMessage::Open(o)) => opens.push(o),
                    Ok(_) => return Err((k, "open-type".into(), "not an OPEN".into())),
                    Err((c, d)) => {
                        let c = if c.starts_with("panic/") {
                            c
                        } else {
                            format!(
                                "{}-{}",
                                if i == 0 { "sent-open" } else { "received-open" },
                                c
                            )
                        };
                        return Err((k, c, d));
                    }
                }
            }
            let recv = opens.pop().unwrap();
            let sent = opens.pop().unwrap();
            Ok(StMsg::PeerUp {
                hdr,
                local16,
                lport,
                rport,
                sent,
                recv,
            })
        }
        2 => {
            let k = "peer-down";
            let hdr = read_peer_header(body).map_err(|(c, d)| (k, c, d))?;
            if body.len() < 43 {
                return Err((k, "short".into(), "no reason byte".into()));
            }
            let (reason, data) = (body[42], &body[43..]);
            match reason {
                1 | 3 => {
                    one_pdu(data, 3)
                        .map_err(|(c, d)| (k, format!("reason-{}/{}", reason, c), d))?;
                }
                2 => {
                    if data.len() != 2 {
                        return Err((
                            k,
                            "fsm-code".into(),
                            format!(
                                "reason 2 data is {} bytes, a 2-byte FSM event code is required",
                                data.len()
                            ),
                        ));
                    }
                }
                4 | 5 => {
                    if !data.is_empty() {
                        return Err((
                            k,
                            "reason-data".into(),
                            format!("reason {} must carry no data, got {}", reason, hex(data)),
                        ));
                    }
                }
                r => return Err((k, "reason-unknown".into(), format!("reason {}", r))),
            }
            Ok(StMsg::PeerDown {
                hdr,
                reason,
                data: data.to_vec(),
            })
        }
        0 => {
            let k = "route-monitoring";
            let hdr = read_peer_header(body).map_err(|(c, d)| (k, c, d))?;
            let pdu = one_pdu(&body[42..], 2).map_err(|(c, d)| (k, c, d))?;
            Ok(StMsg::Route {
                hdr,
                pdu: pdu.to_vec(),
            })
        }
        t => Ok(StMsg::Other(t)),
    }
}

/// What a per-peer header must say.
#[derive(Clone, Debug)]
struct HdrExp {
    ptype: u8,
    /// L / O bits
    flags: u8,
    addr: IpAddr,
    asn: u32,
    id: [u8; 4],
    ts: Option<u32>,
}

fn check_hdr(h: &PeerHdr, e: &HdrExp) -> Result<(), (String, String)> {
    if h.ptype != e.ptype {
        return Err((
            "peer-type".into(),
            format!("peer type {} expected {}", h.ptype, e.ptype),
        ));
    }
    check_hdr_addr(h, &e.addr)?;
    if h.flags & 0x7f != e.flags {
        return Err((
            "peer-flags".into(),
            format!("flags {:02x} expected L/O bits {:02x}", h.flags, e.flags),
        ));
    }
    if h.rd != 0 {
        return Err((
            "peer-distinguisher".into(),
            format!("{:016x} expected 0", h.rd),
        ));
    }
    if h.asn != e.asn {
        return Err((
            "peer-as".into(),
            format!("AS{} expected AS{}", h.asn, e.asn),
        ));
    }
    if h.id != e.id {
        return Err((
            "peer-bgp-id".into(),
            format!("{} expected {}", hex(&h.id), hex(&e.id)),
        ));
    }
    if let Some(ts) = e.ts {
        if h.ts != ts {
            return Err(("peer-timestamp".into(), format!("{} expected {}", h.ts, ts)));
        }
    }
    Ok(())
}

/// Encode with the session-long codec as `Framed` does, catching panics.
fn encode_bmp(
    codec: &mut bmp::BmpCodec,
    msg: &bmp::Message,
    kind: &str,
) -> Result<Vec<u8>, Finding> {
    match guard(|| {
        let mut buf = bytes::BytesMut::new();
        codec.encode(msg, &mut buf).map(|_| buf.to_vec())
    }) {
        Ok(Ok(b)) => Ok(b),
        Ok(Err(e)) => Err(finding(
            kind,
            "encode-error",
            "BmpCodec refuses a message the daemon built",
            format!("{:?}", e),
            &[],
        )),
        Err(p) => Err(finding(
            kind,
            &format!("panic/{}:{}", p.location, panic_class(&p.message)),
            "building / encoding a BMP message panicked",
            p.message,
            &[],
        )),
    }
}

/// Judge the RouteMonitoring message(s) emitted for one event.
fn judge_route_bytes(
    ps: &mut Parsers,
    bytes: &[u8],
    hdr: &HdrExp,
    exp: &RouteExp,
) -> Result<(), Finding> {
    let k = "route-monitoring";
    let recs = read_bmp(bytes).map_err(|(c, d)| {
        finding(
            k,
            &c,
            "BMP common header length does not delimit the message",
            d,
            bytes,
        )
    })?;
    if recs.is_empty() {
        return Err(finding(
            k,
            "nothing-emitted",
            "no BMP message for a monitored route event",
            String::new(),
            bytes,
        ));
    }
    let mut d = Decoded::default();
    for r in &recs {
        if r.typ != 0 {
            return Err(finding(
                k,
                "type",
                "message type differs",
                format!("type {}", r.typ),
                bytes,
            ));
        }
        let m = read_bmp_msg(ps, r.typ, r.body).map_err(|(_, c, dd)| finding(k, &c, "RouteMonitoring must carry a per-peer header and exactly one BGP UPDATE PDU filling the message", dd, bytes))?;
        let StMsg::Route { hdr: h, pdu } = m else {
            unreachable!()
        };
        check_hdr(&h, hdr).map_err(|(c, dd)| {
            finding(
                k,
                &c,
                "per-peer header does not describe the monitored peer / RIB view",
                dd,
                bytes,
            )
        })?;
        match ps.parse(&pdu, exp.addpath, false) {
            Ok(pm) => d.absorb(pm),
            Err((c, dd)) => {
                let c = if c.starts_with("panic/") {
                    c
                } else {
                    format!("{}/{}", c, exp.shape())
                };
                return Err(finding(
                    k,
                    &c,
                    "embedded UPDATE is not readable by the repository's parser with the add-path setting of the session",
                    dd,
                    bytes,
                ));
            }
        }
    }
    compare_exp(exp, &d).map_err(|(c, dd)| finding(k, &format!("{}/{}", c, exp.shape()), "embedded UPDATE(s) do not parse back to the monitored prefixes / attributes / next hop", dd, bytes))
}

fn judge_eor_bytes(
    ps: &mut Parsers,
    bytes: &[u8],
    hdr: &HdrExp,
    family: Family,
) -> Result<(), Finding> {
    let k = "route-monitoring";
    let recs = read_bmp(bytes).map_err(|(c, d)| {
        finding(
            k,
            &c,
            "BMP common header length does not delimit the message",
            d,
            bytes,
        )
    })?;
    if recs.len() != 1 || recs[0].typ != 0 {
        return Err(finding(
            k,
            "eor-message-count",
            "one RouteMonitoring message expected for an End-of-RIB",
            format!("{} messages", recs.len()),
            bytes,
        ));
    }
    let m = read_bmp_msg(ps, 0, recs[0].body).map_err(|(_, c, dd)| {
        finding(
            k,
            &c,
            "End-of-RIB RouteMonitoring is not well-formed",
            dd,
            bytes,
        )
    })?;
    let StMsg::Route { hdr: h, pdu } = m else {
        unreachable!()
    };
    check_hdr(&h, hdr).map_err(|(c, dd)| {
        finding(
            k,
            &format!("eor-{}", c),
            "per-peer header of the End-of-RIB does not describe the peer / RIB view",
            dd,
            bytes,
        )
    })?;
    match ps.parse(&pdu, false, false) {
        Ok(ParsedMessage::Update(ParsedUpdate::EndOfRib(f))) if f == family => Ok(()),
        Ok(_) => Err(finding(
            k,
            "eor-differs",
            "the End-of-RIB marker does not parse back as End-of-RIB of the family",
            fam_name(family).to_string(),
            bytes,
        )),
        Err((c, dd)) => Err(finding(
            k,
            &format!("eor-{}", c),
            "End-of-RIB PDU not readable",
            dd,
            bytes,
        )),
    }
}

fn exp_of_change(c: &AdjRibInChange) -> RouteExp {
    RouteExp {
        family: c.family,
        reach: c.attrs.is_some(),
        entries: c.nlris.clone(),
        nexthop: if c.attrs.is_some() { c.nexthop } else { None },
        attrs: c.attrs.clone().unwrap_or_else(|| Arc::new(Vec::new())),
        addpath: c.addpath,
    }
}

fn count_route(rep: &mut Report, pre: &str, exp: &RouteExp, peer_v6: bool) {
    rep.count(&format!("{}:family/{}", pre, fam_name(exp.family)));
    rep.count(&format!(
        "{}:{}",
        pre,
        if exp.reach { "reach" } else { "withdraw" }
    ));
    rep.count(&format!(
        "{}:{}",
        pre,
        if peer_v6 { "peer-v6" } else { "peer-v4" }
    ));
    if exp.addpath {
        rep.count(&format!("{}:addpath", pre));
    }
    if exp.reach && exp.family == Family::IPV4 && exp.v6_nexthop() {
        rep.count(&format!("{}:ipv4-prefix-v6-nexthop", pre));
    }
    if exp.attr_bytes() > 4096 {
        rep.count(&format!("{}:attrs-exceed-4096", pre));
    }
    if exp.entries.len() > 1 {
        rep.count(&format!("{}:multi-nlri", pre));
    }
}

// ================================================================== conv: converters over a real TableManager

struct CPeer {
    src: Arc<table::Source>,
    addpath: bool,
}

fn conv_v4_prefix(i: usize) -> Nlri {
    let (a, m) = match i % 10 {
        0 => (Ipv4Addr::new(10, 0, 0, 0), 8),
        1 => (Ipv4Addr::new(10, 1, 0, 0), 16),
        2 => (Ipv4Addr::new(10, 1, 2, 0), 24),
        3 => (Ipv4Addr::new(10, 1, 2, 3), 32),
        4 => (Ipv4Addr::new(0, 0, 0, 0), 0),
        5 => (Ipv4Addr::new(172, 16, 0, 0), 12),
        6 => (Ipv4Addr::new(192, 0, 2, 128), 25),
        7 => (Ipv4Addr::new(198, 51, 100, 0), 22),
        8 => (Ipv4Addr::new(203, 0, 113, 64), 27),
        _ => (Ipv4Addr::new(100, 64, 0, 0), 10),
    };
    Nlri::V4(Ipv4Net { addr: a, mask: m })
}

fn conv_v6_prefix(i: usize) -> Nlri {
    let (a, m): (Ipv6Addr, u8) = match i % 6 {
        0 => ("2001:db8::".parse().unwrap(), 32),
        1 => ("2001:db8:1::".parse().unwrap(), 48),
        2 => ("2001:db8:1:2::".parse().unwrap(), 64),
        3 => ("2001:db8::1".parse().unwrap(), 128),
        4 => ("::".parse().unwrap(), 0),
        _ => ("2001:db8:ffff:ff80::".parse().unwrap(), 57),
    };
    Nlri::V6(Ipv6Net { addr: a, mask: m })
}

fn conv_peers(rng: &mut Rng) -> Vec<CPeer> {
    let n = rng.range(2, 6) as usize;
    (0..n)
        .map(|i| {
            let v6 = rng.chance(2, 5);
            let ibgp = rng.chance(1, 4);
            let asn = if ibgp {
                LOCAL_ASN_2
            } else if rng.bool() {
                64512 + i as u32
            } else {
                4_200_000_000 + i as u32
            };
            let (remote, local): (IpAddr, IpAddr) = if v6 {
                (
                    IpAddr::V6(Ipv6Addr::new(
                        0x2001,
                        0xdb8,
                        0xfe,
                        0,
                        0,
                        0,
                        0,
                        0x10 + i as u16,
                    )),
                    IpAddr::V6(Ipv6Addr::new(0x2001, 0xdb8, 0xfe, 0, 0, 0, 0, 1)),
                )
            } else {
                (
                    IpAddr::V4(Ipv4Addr::new(192, 0, 2, 10 + i as u8)),
                    IpAddr::V4(Ipv4Addr::new(192, 0, 2, 1)),
                )
            };
            CPeer {
                src: Arc::new(table::Source::new(
                    remote,
                    local,
                    asn,
                    LOCAL_ASN_2,
                    Ipv4Addr::new(1, 1, rng.below(200) as u8, 10 + i as u8),
                    if ibgp {
                        table::PeerRole::Ibgp
                    } else {
                        table::PeerRole::Ebgp
                    },
                )),
                addpath: rng.chance(1, 3),
            }
        })
        .collect()
}

fn conv_nexthop(rng: &mut Rng, fam: Family, v6peer: bool) -> Option<Nexthop> {
    if fam == Family::IPV6 {
        return Some(if rng.chance(1, 3) {
            Nexthop::V6LinkLocal(rand_v6(rng), rand_ll(rng))
        } else {
            Nexthop::V6(rand_v6(rng))
        });
    }
    if fam == Family::IPV4 {
        if v6peer && rng.chance(2, 3) {
            return Some(if rng.chance(1, 4) {
                Nexthop::V6LinkLocal(rand_v6(rng), rand_ll(rng))
            } else {
                Nexthop::V6(rand_v6(rng))
            });
        }
        return Some(Nexthop::V4(rand_v4(rng)));
    }
    Some(if rng.bool() {
        Nexthop::V4(rand_v4(rng))
    } else {
        Nexthop::V6(rand_v6(rng))
    })
}

fn attr_pool(
    rng: &mut Rng,
    ps: &mut Parsers,
    rep: &mut Report,
    n: usize,
) -> Vec<Arc<Vec<Attribute>>> {
    let mut pool = Vec::new();
    while pool.len() < n {
        let size = match rng.below(30) {
            0 => AttrSize::Huge,
            1..=4 => AttrSize::Extended,
            _ => AttrSize::Normal,
        };
        let a = gen_attrs(rng, size, false);
        if attrs_stable(ps, &a) {
            pool.push(Arc::new(a));
        } else {
            rep.count("unjudged:attrs-not-bgp-stable");
        }
    }
    pool
}

type SnapKey = (u32, String, u32);

fn fam_id(f: Family) -> u32 {
    ((f.afi() as u32) << 16) | f.safi() as u32
}

/// the RIB's own Adj-RIB-In of one peer, pre- or post-policy, through its read accessors
fn rib_adj_in(
    tables: &TableManager,
    peer: IpAddr,
    post: bool,
) -> BTreeMap<SnapKey, (String, String)> {
    let mut m = BTreeMap::new();
    for shard in &tables.shards {
        let s = shard.lock().unwrap();
        for f in s.rtable.families().collect::<Vec<_>>() {
            let it: Vec<table::Reach> = if post {
                s.rtable.iter_reach_post(f).collect()
            } else {
                s.rtable.iter_reach(f).collect()
            };
            for r in it {
                if r.source.remote_addr == peer {
                    m.insert(
                        (fam_id(f), r.net.nlri.to_string(), r.net.path_id),
                        (attrs_canon(&r.attr), nh_str(&r.nexthop)),
                    );
                }
            }
        }
    }
    m
}

fn conv_history(rep: &mut Report, ps: &mut Parsers, rng: &mut Rng, hseed: u64) {
    let shards = *rng.pick(&[1usize, 2, 4]);
    let tables = Arc::new(TableManager::new(shards));
    let with_policy = rng.chance(1, 4);
    if with_policy {
        let mut pt = table::PolicyTable::new();
        let actions = table::Actions {
            local_pref: Some(table::LocalPrefAction { value: 250 }),
            ..Default::default()
        };
        pt.add_statement("lp", vec![], Some(table::Disposition::Accept), actions)
            .unwrap();
        pt.add_policy("pa", vec!["lp".into()]).unwrap();
        tables.import_policy.store(Some(
            pt.build_assignment(
                None,
                "a",
                table::PolicyDirection::Import,
                table::Disposition::Accept,
                vec!["pa".into()],
            )
            .unwrap(),
        ));
    }
    let peers = conv_peers(rng);
    let ap_fams = [Family::IPV4, Family::IPV6, Family::IPV4_VPN];
    let mut keep_rx = Vec::new();
    for p in &peers {
        if p.addpath {
            let fams: FnvHashSet<Family> = ap_fams.iter().copied().collect();
            keep_rx.push(tables.register_peer(p.src.remote_addr, fams, |_| {}));
        }
    }
    let pool = attr_pool(rng, ps, rep, 6);
    let router_id = Ipv4Addr::new(10, 255, rng.below(256) as u8, 1);
    let local_asn = if rng.bool() {
        LOCAL_ASN_2
    } else {
        4_200_100_000 + rng.below(1000) as u32
    };
    let mut codec = bmp::BmpCodec::new();
    let mut live = tables.subscribe(false);
    let desc = |p: &CPeer| {
        format!(
            "{} AS{} id {} addpath={}",
            p.src.remote_addr,
            p.src.remote_asn,
            Ipv4Addr::from(p.src.router_id),
            p.addpath
        )
    };

    // ---- route operations against the real RIB
    let nops = rng.range(10, 120) as usize;
    let mut livekeys: Vec<(usize, Family, PathNlri)> = Vec::new();
    for i in 0..nops {
        let pi = rng.usize(peers.len());
        let peer = &peers[pi];
        if !livekeys.is_empty() && rng.chance(1, 5) {
            let k = rng.usize(livekeys.len());
            let (wp, fam, net) = livekeys.swap_remove(k);
            tables.remove_route(
                peers[wp].src.clone(),
                fam,
                net,
                None,
                1_700_000_000 + i as u32,
            );
            continue;
        }
        let fam = match rng.below(20) {
            0..=8 => Family::IPV4,
            9..=14 => Family::IPV6,
            15..=16 => Family::IPV4_VPN,
            17 => Family::IPV6_VPN,
            _ => Family::L2VPN_EVPN,
        };
        let nlri = if fam == Family::IPV4 {
            conv_v4_prefix(rng.usize(10))
        } else if fam == Family::IPV6 {
            conv_v6_prefix(rng.usize(6))
        } else {
            gen_nlri(rng, fam, true)
        };
        let ap = peer.addpath && ap_fams.contains(&fam);
        let net = PathNlri {
            path_id: if ap { rng.range(1, 3) as u32 } else { 0 },
            nlri,
        };
        let nh = conv_nexthop(rng, fam, peer.src.remote_addr.is_ipv6());
        tables.insert_route(
            peer.src.clone(),
            fam,
            net.clone(),
            nh,
            rng.pick(&pool).clone(),
            None,
            1_700_000_000 + i as u32,
        );
        if !livekeys
            .iter()
            .any(|(p, f, n)| *p == pi && *f == fam && *n == net)
        {
            livekeys.push((pi, fam, net));
        }
    }

    // ---- live events through the converters, with the headers serve() builds for them
    let mut all_pre: Vec<AdjRibInChange> = Vec::new();
    while let Ok(ev) = live.rx.try_recv() {
        match ev {
            BgpEvent::AdjRibIn(change) => {
                conv_adj_in(rep, ps, &mut codec, &change, 0, hseed, "conv-pre");
                all_pre.push(change);
            }
            BgpEvent::AdjRibInPost(change) => conv_adj_in(
                rep,
                ps,
                &mut codec,
                &change,
                bmp::Message::PEER_FLAG_POST_POLICY,
                hseed,
                "conv-post",
            ),
            BgpEvent::LocRib(change) => {
                rep.eval();
                let exp = RouteExp {
                    family: change.family,
                    reach: change.attr.is_some(),
                    entries: vec![PathNlri {
                        path_id: 0,
                        nlri: change.net.clone(),
                    }],
                    nexthop: if change.attr.is_some() {
                        change.nexthop
                    } else {
                        None
                    },
                    attrs: change.attr.clone().unwrap_or_else(|| Arc::new(Vec::new())),
                    addpath: false,
                };
                if let Err(why) = exp_bgp_stable(ps, &exp, false) {
                    rep.count(&format!(
                        "unjudged:bgp-codec-unstable/{}",
                        why.split(':').next().unwrap_or("")
                    ));
                    continue;
                }
                let hdr = HdrExp {
                    ptype: 3,
                    flags: 0,
                    addr: IpAddr::V4(Ipv4Addr::UNSPECIFIED),
                    asn: local_asn,
                    id: router_id.octets(),
                    ts: Some(change.timestamp),
                };
                let r = guard(|| loc_rib_to_bmp(&change, router_id, local_asn))
                    .map_err(|p| {
                        finding(
                            "route-monitoring",
                            &format!("panic/{}:{}", p.location, panic_class(&p.message)),
                            "loc_rib_to_bmp panicked",
                            p.message,
                            &[],
                        )
                    })
                    .and_then(|m| encode_bmp(&mut codec, &m, "route-monitoring"))
                    .and_then(|b| judge_route_bytes(ps, &b, &hdr, &exp).map(|_| b));
                match r {
                    Ok(b) => {
                        rep.nontrivial(fnv64(&b));
                        count_route(rep, "conv-locrib", &exp, false);
                    }
                    Err(mut f) => {
                        f.sig = f
                            .sig
                            .replace("/route-monitoring/", "/route-monitoring/loc-rib-");
                        report(
                            rep,
                            f,
                            Json::obj(vec![
                                ("via", Json::s("loc_rib_to_bmp")),
                                ("router_id", Json::s(router_id.to_string())),
                                ("local_asn", Json::Int(local_asn as i128)),
                                ("route", exp.json()),
                            ]),
                            hseed,
                        )
                    }
                }
            }
            _ => {}
        }
    }
    tables.unsubscribe(live.id);

    // ---- a synthetic change with many NLRI (more than fit one / several frames)
    if rng.chance(1, 2) {
        let peer = rng.pick(&peers);
        let v6 = rng.bool();
        let fam = if v6 { Family::IPV6 } else { Family::IPV4 };
        let ap = peer.addpath;
        let n = match rng.below(4) {
            0 => rng.range(2, 30),
            1 => rng.range(900, 1500),
            2 => rng.range(1500, 4000),
            _ => rng.range(14000, 17000),
        } as usize;
        let nlris: Vec<PathNlri> = (0..n)
            .map(|_| PathNlri {
                path_id: if ap { rng.next_u32() | 1 } else { 0 },
                nlri: if v6 {
                    Nlri::V6(v6net(rng))
                } else {
                    Nlri::V4(v4net(rng))
                },
            })
            .collect();
        let reach = rng.chance(3, 4);
        let change = AdjRibInChange {
            source: peer.src.clone(),
            family: fam,
            addpath: ap,
            nlris,
            attrs: if reach {
                Some(rng.pick(&pool).clone())
            } else {
                None
            },
            nexthop: if reach {
                conv_nexthop(rng, fam, peer.src.remote_addr.is_ipv6())
            } else {
                None
            },
            timestamp: 1_700_000_999,
        };
        conv_adj_in(rep, ps, &mut codec, &change, 0, hseed, "conv-many");
        rep.max("conv-nlri-per-event", n as u64);
    }

    // ---- Adj-RIB-Out changes (what BmpAdjOut emits), O and O|L views
    for _ in 0..rng.range(2, 8) {
        let peer = rng.pick(&peers);
        let fam = *rng.pick(&[
            Family::IPV4,
            Family::IPV6,
            Family::IPV4_VPN,
            Family::L2VPN_EVPN,
        ]);
        let nlri = if fam == Family::IPV4 {
            conv_v4_prefix(rng.usize(10))
        } else if fam == Family::IPV6 {
            conv_v6_prefix(rng.usize(6))
        } else {
            gen_nlri(rng, fam, true)
        };
        let ap = rng.chance(1, 3);
        let reach = rng.chance(3, 4);
        let change = AdjRibOutChange {
            peer_addr: peer.src.remote_addr,
            peer_asn: peer.src.remote_asn,
            peer_id: peer.src.router_id,
            family: fam,
            addpath: ap,
            nlri: PathNlri {
                path_id: if ap { rng.range(1, 9) as u32 } else { 0 },
                nlri,
            },
            attrs: if reach {
                Some(rng.pick(&pool).clone())
            } else {
                None
            },
            nexthop: if reach {
                conv_nexthop(rng, fam, peer.src.remote_addr.is_ipv6())
            } else {
                None
            },
            timestamp: 1_700_001_000,
        };
        let post = rng.bool();
        let flags = bmp::Message::PEER_FLAG_ADJ_RIB_OUT
            | if post {
                bmp::Message::PEER_FLAG_POST_POLICY
            } else {
                0
            };
        let exp = RouteExp {
            family: fam,
            reach,
            entries: vec![change.nlri.clone()],
            nexthop: change.nexthop,
            attrs: change.attrs.clone().unwrap_or_else(|| Arc::new(Vec::new())),
            addpath: ap,
        };
        rep.eval();
        if exp_bgp_stable(ps, &exp, false).is_err() {
            rep.count("unjudged:bgp-codec-unstable/adj-out");
            continue;
        }
        let hdr = HdrExp {
            ptype: 0,
            flags,
            addr: change.peer_addr,
            asn: change.peer_asn,
            id: change.peer_id.to_be_bytes(),
            ts: Some(change.timestamp),
        };
        let r = guard(|| adj_rib_out_to_bmp_update(&change))
            .map_err(|p| {
                finding(
                    "route-monitoring",
                    &format!("panic/{}:{}", p.location, panic_class(&p.message)),
                    "adj_rib_out_to_bmp_update panicked",
                    p.message,
                    &[],
                )
            })
            .and_then(|update| {
                // the header exactly as serve() builds it for BgpEvent::AdjRibOutPre / AdjRibOutPost
                let m = bmp::Message::RouteMonitoring {
                    header: bmp::PerPeerHeader::new(
                        flags,
                        change.peer_asn,
                        Ipv4Addr::from(change.peer_id),
                        0,
                        change.peer_addr,
                        change.timestamp,
                    ),
                    update,
                    addpath: change.addpath,
                };
                encode_bmp(&mut codec, &m, "route-monitoring")
            })
            .and_then(|b| judge_route_bytes(ps, &b, &hdr, &exp).map(|_| b));
        match r {
            Ok(b) => {
                rep.nontrivial(fnv64(&b));
                count_route(rep, "conv-adjout", &exp, change.peer_addr.is_ipv6());
            }
            Err(mut f) => {
                f.sig = f
                    .sig
                    .replace("/route-monitoring/", "/route-monitoring/adj-out-");
                report(
                    rep,
                    f,
                    Json::obj(vec![
                        ("via", Json::s("adj_rib_out_to_bmp_update")),
                        ("peer", Json::s(desc(peer))),
                        ("route", exp.json()),
                    ]),
                    hseed,
                )
            }
        }
    }

    // ---- snapshot: subscribe(true) folded with apply_snapshot exactly as serve() does, then flushed per peer
    let mut snapshot: SnapshotMap = FnvHashMap::default();
    let mut snapshot_post: SnapshotMap = FnvHashMap::default();
    let mut sub = tables.subscribe(true);
    let mut sentinel = false;
    while let Ok(ev) = sub.rx.try_recv() {
        match ev {
            BgpEvent::AdjRibIn(c) => apply_snapshot(&mut snapshot, c),
            BgpEvent::AdjRibInPost(c) => apply_snapshot(&mut snapshot_post, c),
            BgpEvent::EndOfSnapshot => {
                sentinel = true;
                break;
            }
            _ => {}
        }
    }
    tables.unsubscribe(sub.id);
    if !sentinel {
        rep.inconclusive("subscribe(true) did not deliver EndOfSnapshot");
        return;
    }
    // the net state of the whole live history folded with apply_snapshot must be the same map
    // (exercises the withdrawal branch)
    {
        let mut folded: SnapshotMap = FnvHashMap::default();
        for c in all_pre {
            apply_snapshot(&mut folded, c);
        }
        for p in &peers {
            rep.eval();
            let a: BTreeSet<String> = folded
                .get(&p.src.remote_addr)
                .map(|m| {
                    m.keys()
                        .map(|(f, n)| format!("{}:{}#{}", fam_name(*f), n.nlri, n.path_id))
                        .collect()
                })
                .unwrap_or_default();
            let b: BTreeSet<String> = snapshot
                .get(&p.src.remote_addr)
                .map(|m| {
                    m.keys()
                        .map(|(f, n)| format!("{}:{}#{}", fam_name(*f), n.nlri, n.path_id))
                        .collect()
                })
                .unwrap_or_default();
            if a != b {
                report(
                    rep,
                    finding(
                        "route-monitoring",
                        "snapshot-fold-differs",
                        "apply_snapshot over the live history does not give the net state a fresh snapshot gives",
                        format!(
                            "only in folded history: {:?}; only in snapshot: {:?}",
                            a.difference(&b).take(5).collect::<Vec<_>>(),
                            b.difference(&a).take(5).collect::<Vec<_>>()
                        ),
                        &[],
                    ),
                    Json::s(desc(p)),
                    hseed,
                );
            } else {
                rep.count("conv:apply-snapshot-folds");
            }
        }
    }
    let mut order: Vec<usize> = (0..peers.len()).collect();
    rng.shuffle(&mut order);
    for (post, snap) in [(false, &mut snapshot), (true, &mut snapshot_post)] {
        for &pi in &order {
            let p = &peers[pi];
            let addr = p.src.remote_addr;
            let uptime = 1_600_000_000 + pi as u32;
            let flags = if post {
                bmp::Message::PEER_FLAG_POST_POLICY
            } else {
                0
            };
            let base = bmp::PerPeerHeader::new(
                0,
                p.src.remote_asn,
                Ipv4Addr::from(p.src.router_id),
                0,
                addr,
                uptime,
            );
            let peer_header = if post { base.with_post_policy() } else { base };
            let want = rib_adj_in(&tables, addr, post);
            rep.eval();
            let msgs = match guard(|| flush_peer_snapshot(snap, addr, &peer_header, flags)) {
                Ok(m) => m,
                Err(pn) => {
                    report(
                        rep,
                        finding(
                            "route-monitoring",
                            &format!("panic/{}:{}", pn.location, panic_class(&pn.message)),
                            "flush_peer_snapshot panicked",
                            pn.message,
                            &[],
                        ),
                        Json::s(desc(p)),
                        hseed,
                    );
                    continue;
                }
            };
            if snap.contains_key(&addr) {
                report(
                    rep,
                    finding(
                        "route-monitoring",
                        "snapshot-not-consumed",
                        "flush_peer_snapshot left the peer's routes in the snapshot map",
                        String::new(),
                        &[],
                    ),
                    Json::s(desc(p)),
                    hseed,
                );
            }
            let mut got: BTreeMap<SnapKey, (String, String)> = BTreeMap::new();
            let mut eors: Vec<Family> = Vec::new();
            let mut fail: Option<Finding> = None;
            let hdr_route = HdrExp {
                ptype: 0,
                flags,
                addr,
                asn: p.src.remote_asn,
                id: p.src.router_id.to_be_bytes(),
                ts: None,
            };
            let hdr_eor = HdrExp {
                ts: Some(uptime),
                ..hdr_route.clone()
            };
            for m in &msgs {
                let bmp::Message::RouteMonitoring {
                    update, addpath, ..
                } = m
                else {
                    fail = Some(finding(
                        "route-monitoring",
                        "snapshot-type",
                        "flush_peer_snapshot returned something else than RouteMonitoring",
                        String::new(),
                        &[],
                    ));
                    break;
                };
                let bytes = match encode_bmp(&mut codec, m, "route-monitoring") {
                    Ok(b) => b,
                    Err(f) => {
                        fail = Some(f);
                        break;
                    }
                };
                match update {
                    bgp::Message::Update(bgp::Update::EndOfRib(f)) => {
                        if let Err(x) = judge_eor_bytes(ps, &bytes, &hdr_eor, *f) {
                            fail = Some(x);
                            break;
                        }
                        eors.push(*f);
                    }
                    bgp::Message::Update(bgp::Update::Reach {
                        family,
                        entries,
                        nexthop,
                        attr,
                    }) => {
                        if eors.contains(family) {
                            fail = Some(finding(
                                "route-monitoring",
                                "snapshot-route-after-eor",
                                "a route of a family follows the End-of-RIB of that family",
                                fam_name(*family).into(),
                                &bytes,
                            ));
                            break;
                        }
                        let exp = RouteExp {
                            family: *family,
                            reach: true,
                            entries: entries.clone(),
                            nexthop: *nexthop,
                            attrs: attr.clone(),
                            addpath: *addpath,
                        };
                        if exp_bgp_stable(ps, &exp, false).is_err() {
                            rep.count("unjudged:bgp-codec-unstable/snapshot");
                        } else if let Err(x) = judge_route_bytes(ps, &bytes, &hdr_route, &exp) {
                            fail = Some(x);
                            break;
                        }
                        // what the RIB says about add-path for this peer / family is what the record must state
                        let want_ap = p.addpath && ap_fams.contains(family);
                        if *addpath != want_ap {
                            fail = Some(finding(
                                "route-monitoring",
                                "snapshot-addpath-setting",
                                "snapshot RouteMonitoring states another add-path setting than the session has",
                                format!(
                                    "{} addpath={} session={}",
                                    fam_name(*family),
                                    addpath,
                                    want_ap
                                ),
                                &bytes,
                            ));
                            break;
                        }
                        for e in entries {
                            got.insert(
                                (fam_id(*family), e.nlri.to_string(), e.path_id),
                                (attrs_canon(attr), nh_str(nexthop)),
                            );
                        }
                        rep.nontrivial(fnv64(&bytes));
                        count_route(
                            rep,
                            if post {
                                "conv-snap-post"
                            } else {
                                "conv-snap-pre"
                            },
                            &exp,
                            addr.is_ipv6(),
                        );
                    }
                    _ => {
                        fail = Some(finding(
                            "route-monitoring",
                            "snapshot-type",
                            "snapshot flush produced a withdrawal / non-UPDATE",
                            String::new(),
                            &bytes,
                        ));
                        break;
                    }
                }
            }
            if fail.is_none() && got != want {
                let missing: Vec<String> = want
                    .iter()
                    .filter(|(k, v)| got.get(*k) != Some(*v))
                    .take(4)
                    .map(|(k, v)| format!("{:?} -> {} / {}", k, short(&v.0, 120), v.1))
                    .collect();
                let extra: Vec<String> = got
                    .iter()
                    .filter(|(k, v)| want.get(*k) != Some(*v))
                    .take(4)
                    .map(|(k, v)| format!("{:?} -> {} / {}", k, short(&v.0, 120), v.1))
                    .collect();
                let all_keys =
                    got.keys().collect::<BTreeSet<_>>() == want.keys().collect::<BTreeSet<_>>();
                let strip = |m: &BTreeMap<SnapKey, (String, String)>| {
                    m.keys()
                        .map(|k| (k.0, k.1.clone()))
                        .collect::<BTreeSet<_>>()
                };
                let clause = if all_keys {
                    "snapshot-content-differs"
                } else if strip(&got) == strip(&want) {
                    "snapshot-path-id-differs"
                } else {
                    "snapshot-routes-differ"
                };
                fail = Some(finding(
                    "route-monitoring",
                    clause,
                    "the flushed snapshot of a peer is not the Adj-RIB-In the RIB holds for it",
                    format!(
                        "{} view: RIB {} routes, flushed {}; RIB only / differing: {:?}; flushed only / differing: {:?}",
                        if post { "post-policy" } else { "pre-policy" },
                        want.len(),
                        got.len(),
                        missing,
                        extra
                    ),
                    &[],
                ));
            }
            if fail.is_none() {
                let want_f: BTreeSet<u32> = want.keys().map(|k| k.0).collect();
                let mut got_f: Vec<u32> = eors.iter().map(|f| fam_id(*f)).collect();
                got_f.sort();
                if got_f != want_f.iter().copied().collect::<Vec<_>>() {
                    fail = Some(finding(
                        "route-monitoring",
                        "snapshot-eor-missing",
                        "the snapshot of a peer must end with exactly one End-of-RIB per family that had routes",
                        format!(
                            "families with routes {:?}, End-of-RIB markers {:?}",
                            want_f, got_f
                        ),
                        &[],
                    ));
                }
            }
            match fail {
                Some(f) => report(
                    rep,
                    f,
                    Json::obj(vec![
                        ("via", Json::s("apply_snapshot + flush_peer_snapshot")),
                        ("view", Json::s(if post { "post" } else { "pre" })),
                        ("peer", Json::s(desc(p))),
                        ("import_policy", Json::Bool(with_policy)),
                        ("rib_routes", Json::Int(want.len() as i128)),
                    ]),
                    hseed,
                ),
                None => {
                    rep.count(if want.is_empty() {
                        "conv:snapshot-flush-empty"
                    } else {
                        "conv:snapshot-flush"
                    });
                    rep.count_n("conv:snapshot-eor", eors.len() as u64);
                }
            }
        }
    }

    // ---- the Loc-RIB virtual peer's PeerUp
    {
        rep.eval();
        let r = guard(|| loc_rib_peer_up(router_id, local_asn))
            .map_err(|p| {
                finding(
                    "peer-up",
                    &format!("panic/{}:{}", p.location, panic_class(&p.message)),
                    "loc_rib_peer_up panicked",
                    p.message,
                    &[],
                )
            })
            .and_then(|m| encode_bmp(&mut codec, &m, "peer-up"))
            .and_then(|b| judge_loc_rib_peer_up(ps, &b, router_id, local_asn).map(|_| b));
        match r {
            Ok(b) => {
                rep.nontrivial(fnv64(&b));
                rep.count(if local_asn > 65535 {
                    "conv:locrib-peer-up/4-byte-as"
                } else {
                    "conv:locrib-peer-up/2-byte-as"
                });
            }
            Err(f) => report(
                rep,
                f,
                Json::obj(vec![
                    ("via", Json::s("loc_rib_peer_up")),
                    ("router_id", Json::s(router_id.to_string())),
                    ("local_asn", Json::Int(local_asn as i128)),
                ]),
                hseed,
            ),
        }
    }

    // ---- session_down_to_bmp for every reason, in the PeerDown serve() builds
    let notif = |rng: &mut Rng| bgp::Message::Notification(gen_notification(rng));
    let reasons: Vec<(
        &str,
        Option<crate::fsm::SessionDownReason>,
        u8,
        Option<bgp::Message>,
    )> = {
        let (a, b) = (notif(rng), notif(rng));
        vec![
            ("none", None, 4, None),
            (
                "io-error",
                Some(crate::fsm::SessionDownReason::IoError),
                4,
                None,
            ),
            (
                "hold-timer",
                Some(crate::fsm::SessionDownReason::HoldTimerExpired),
                0,
                None,
            ),
            (
                "fsm-error",
                Some(crate::fsm::SessionDownReason::FsmError),
                0,
                None,
            ),
            (
                "admin-shutdown",
                Some(crate::fsm::SessionDownReason::AdminShutdown),
                0,
                None,
            ),
            (
                "remote-notification",
                Some(crate::fsm::SessionDownReason::RemoteNotification(a.clone())),
                3,
                Some(a),
            ),
            (
                "local-notification",
                Some(crate::fsm::SessionDownReason::LocalNotification(b.clone())),
                1,
                Some(b),
            ),
        ]
    };
    for (name, reason, want_code, want_notif) in reasons {
        let p = rng.pick(&peers);
        rep.eval();
        let hdr = HdrExp {
            ptype: 0,
            flags: 0,
            addr: p.src.remote_addr,
            asn: p.src.remote_asn,
            id: p.src.router_id.to_be_bytes(),
            ts: Some(77),
        };
        let r = guard(|| session_down_to_bmp(reason))
            .map_err(|pn| {
                finding(
                    "peer-down",
                    &format!("panic/{}:{}", pn.location, panic_class(&pn.message)),
                    "session_down_to_bmp panicked",
                    pn.message,
                    &[],
                )
            })
            .and_then(|reason| {
                let m = bmp::Message::PeerDown {
                    header: bmp::PerPeerHeader::new(
                        0,
                        p.src.remote_asn,
                        Ipv4Addr::from(p.src.router_id),
                        0,
                        p.src.remote_addr,
                        77,
                    ),
                    reason,
                };
                encode_bmp(&mut codec, &m, "peer-down")
            })
            .and_then(|b| {
                judge_peer_down_bytes(ps, &b, &hdr, want_code, want_notif.as_ref()).map(|_| b)
            });
        match r {
            Ok(b) => {
                rep.count(&format!("conv:peer-down/{}", name));
                if want_notif.is_some() {
                    rep.nontrivial(fnv64(&b));
                }
            }
            Err(f) => report(
                rep,
                f,
                Json::obj(vec![
                    ("via", Json::s("session_down_to_bmp")),
                    ("reason", Json::s(name)),
                    ("peer", Json::s(desc(p))),
                ]),
                hseed,
            ),
        }
    }
    rep.count("conv:histories");
    drop(keep_rx);
}

fn conv_adj_in(
    rep: &mut Report,
    ps: &mut Parsers,
    codec: &mut bmp::BmpCodec,
    change: &AdjRibInChange,
    flags: u8,
    hseed: u64,
    tag: &str,
) {
    rep.eval();
    let exp = exp_of_change(change);
    if let Err(why) = exp_bgp_stable(ps, &exp, false) {
        rep.count(&format!(
            "unjudged:bgp-codec-unstable/{}",
            why.split(':').next().unwrap_or("")
        ));
        return;
    }
    let hdr = HdrExp {
        ptype: 0,
        flags,
        addr: change.source.remote_addr,
        asn: change.source.remote_asn,
        id: change.source.router_id.to_be_bytes(),
        ts: Some(change.timestamp),
    };
    let r = guard(|| adj_rib_in_to_bmp_update(change))
        .map_err(|p| {
            finding(
                "route-monitoring",
                &format!("panic/{}:{}", p.location, panic_class(&p.message)),
                "adj_rib_in_to_bmp_update panicked",
                p.message,
                &[],
            )
        })
        .and_then(|update| {
            // the header exactly as serve() builds it for BgpEvent::AdjRibIn / AdjRibInPost
            let m = bmp::Message::RouteMonitoring {
                header: bmp::PerPeerHeader::new(
                    flags,
                    change.source.remote_asn,
                    Ipv4Addr::from(change.source.router_id),
                    0,
                    change.source.remote_addr,
                    change.timestamp,
                ),
                update,
                addpath: change.addpath,
            };
            encode_bmp(codec, &m, "route-monitoring")
        })
        .and_then(|b| judge_route_bytes(ps, &b, &hdr, &exp).map(|_| b));
    match r {
        Ok(b) => {
            rep.nontrivial(fnv64(&b));
            count_route(rep, tag, &exp, change.source.remote_addr.is_ipv6());
        }
        Err(f) => report(
            rep,
            f,
            Json::obj(vec![
                ("via", Json::s("adj_rib_in_to_bmp_update")),
                (
                    "peer",
                    Json::s(format!(
                        "{} AS{} addpath={}",
                        change.source.remote_addr, change.source.remote_asn, change.addpath
                    )),
                ),
                ("route", exp.json()),
            ]),
            hseed,
        ),
    }
}

fn judge_loc_rib_peer_up(
    ps: &mut Parsers,
    bytes: &[u8],
    router_id: Ipv4Addr,
    local_asn: u32,
) -> Result<(), Finding> {
    let k = "peer-up";
    let recs = read_bmp(bytes).map_err(|(c, d)| {
        finding(
            k,
            &c,
            "BMP common header length does not delimit the message",
            d,
            bytes,
        )
    })?;
    if recs.len() != 1 || recs[0].typ != 3 {
        return Err(finding(
            k,
            "message-count",
            "one PeerUp message expected",
            format!("{} messages", recs.len()),
            bytes,
        ));
    }
    let m = read_bmp_msg(ps, 3, recs[0].body).map_err(|(_, c, d)| {
        finding(
            k,
            &format!("loc-rib-{}", c),
            "Loc-RIB PeerUp is not well-formed",
            d,
            bytes,
        )
    })?;
    let StMsg::PeerUp {
        hdr,
        local16,
        lport,
        rport,
        sent,
        recv,
    } = m
    else {
        unreachable!()
    };
    let e = HdrExp {
        ptype: 3,
        flags: 0,
        addr: IpAddr::V4(Ipv4Addr::UNSPECIFIED),
        asn: local_asn,
        id: router_id.octets(),
        ts: None,
    };
    check_hdr(&hdr, &e).map_err(|(c, d)| finding(k, &format!("loc-rib-{}", c), "per-peer header of the Loc-RIB PeerUp (RFC 9069 4.1: peer type 3, zero-filled address, local AS / BGP ID)", d, bytes))?;
    if local16 != [0u8; 16] || lport != 0 || rport != 0 {
        return Err(finding(
            k,
            "loc-rib-local-address",
            "RFC 9069 5.1: local address and ports of the Loc-RIB PeerUp are zero",
            format!("{} {} {}", hex(&local16), lport, rport),
            bytes,
        ));
    }
    for (which, o) in [("sent", &sent), ("received", &recv)] {
        // the fabricated OPEN must give back the router's identity: AS and BGP ID
        if o.as_number != local_asn {
            return Err(finding(
                k,
                "loc-rib-open-as-lost",
                "the fabricated OPEN of the Loc-RIB PeerUp does not parse back to the local AS (a 4-byte AS without the 4-octet-AS capability reads as AS_TRANS)",
                format!(
                    "{} OPEN parses back as AS{} ({}), local AS is {}",
                    which,
                    o.as_number,
                    open_str(o),
                    local_asn
                ),
                bytes,
            ));
        }
        if o.router_id != u32::from(router_id) {
            return Err(finding(
                k,
                "loc-rib-open-id",
                "the fabricated OPEN of the Loc-RIB PeerUp does not carry the router id",
                format!("{} OPEN {}", which, open_str(o)),
                bytes,
            ));
        }
    }
    if !open_eq(&sent, &recv) {
        return Err(finding(
            k,
            "loc-rib-open-differ",
            "RFC 9069 5.1: the received OPEN repeats the sent OPEN",
            format!("{} vs {}", open_str(&sent), open_str(&recv)),
            bytes,
        ));
    }
    Ok(())
}

fn judge_peer_down_bytes(
    ps: &mut Parsers,
    bytes: &[u8],
    hdr: &HdrExp,
    want_code: u8,
    want_notif: Option<&bgp::Message>,
) -> Result<(), Finding> {
    let k = "peer-down";
    let recs = read_bmp(bytes).map_err(|(c, d)| {
        finding(
            k,
            &c,
            "BMP common header length does not delimit the message",
            d,
            bytes,
        )
    })?;
    if recs.len() != 1 || recs[0].typ != 2 {
        return Err(finding(
            k,
            "message-count",
            "one PeerDown message expected",
            format!("{} messages", recs.len()),
            bytes,
        ));
    }
    let m = read_bmp_msg(ps, 2, recs[0].body).map_err(|(_, c, d)| {
        finding(
            k,
            &c,
            "PeerDown is not well-formed (reason vs data)",
            d,
            bytes,
        )
    })?;
    let StMsg::PeerDown {
        hdr: h,
        reason,
        data,
    } = m
    else {
        unreachable!()
    };
    check_hdr(&h, hdr).map_err(|(c, d)| {
        finding(
            k,
            &c,
            "per-peer header does not describe the peer",
            d,
            bytes,
        )
    })?;
    if want_code != 0 && reason != want_code {
        return Err(finding(
            k,
            "reason",
            "PeerDown reason code does not say how the session ended",
            format!("reason {} expected {}", reason, want_code),
            bytes,
        ));
    }
    if let Some(bgp::Message::Notification(n)) = want_notif {
        match ps.parse(&data, false, false) {
            Ok(ParsedMessage::Notification(g)) if notif_eq(&g, n) => {}
            Ok(ParsedMessage::Notification(g)) => {
                return Err(finding(
                    k,
                    "notification-differs",
                    "NOTIFICATION in PeerDown is not the one that ended the session",
                    format!("got {} want {}", notif_str(&g), notif_str(n)),
                    bytes,
                ));
            }
            Ok(_) => {
                return Err(finding(
                    k,
                    "notification-type",
                    "PeerDown PDU is not a NOTIFICATION",
                    String::new(),
                    bytes,
                ));
            }
            Err((c, d)) => {
                return Err(finding(
                    k,
                    &format!("notification-{}", c),
                    "NOTIFICATION in PeerDown not readable by the repository's parser",
                    d,
                    bytes,
                ));
            }
        }
    }
    Ok(())
}

// ================================================================== e2e: the real daemon, scripted speakers, BMP stations

type RouteKey = (u32, String, u32);
type RouteVal = (String, String);

#[derive(Clone)]
struct SpkCfg {
    addr: IpAddr,
    asn: u32,
    ibgp: bool,
    router_id: Ipv4Addr,
    /// hold time the speaker puts into its OPEN
    hold: u16,
    /// hold time configured for this neighbour in the daemon
    daemon_hold: u16,
    fams: Vec<Family>,
    /// families for which the speaker sends path ids (daemon configured with add-paths receive)
    ap_fams: Vec<Family>,
    as4: bool,
}

fn fam_cfg_name(f: Family) -> &'static str {
    if f == Family::IPV4 {
        "ipv4-unicast"
    } else if f == Family::IPV6 {
        "ipv6-unicast"
    } else if f == Family::IPV4_VPN {
        "l3vpn-ipv4-unicast"
    } else if f == Family::IPV6_VPN {
        "l3vpn-ipv6-unicast"
    } else {
        "l2vpn-evpn"
    }
}

fn gen_speakers(rng: &mut Rng, local_asn: u32, v6_ok: bool) -> Vec<SpkCfg> {
    let n = rng.range(2, 4) as usize;
    let mut v = Vec::new();
    let v6_at = if v6_ok && rng.chance(2, 3) {
        Some(rng.usize(n))
    } else {
        None
    };
    for i in 0..n {
        let ibgp = rng.chance(1, 4);
        let as4 = !rng.chance(1, 8);
        let asn = if ibgp {
            local_asn
        } else if !as4 || rng.bool() {
            64600 + i as u32
        } else {
            4_200_000_100 + i as u32
        };
        // a speaker without the 4-octet-AS capability cannot be in a 4-byte AS
        let as4 = as4 || asn > 65535;
        let addr = if v6_at == Some(i) {
            IpAddr::V6(Ipv6Addr::LOCALHOST)
        } else {
            IpAddr::V4(Ipv4Addr::new(127, 0, 0, 2 + i as u8))
        };
        let mut fams = vec![Family::IPV4];
        if rng.chance(3, 4) {
            fams.push(Family::IPV6);
        }
        if rng.chance(1, 3) {
            fams.push(Family::IPV4_VPN);
        }
        if rng.chance(1, 4) {
            fams.push(Family::L2VPN_EVPN);
        }
        let ap_fams: Vec<Family> = fams
            .iter()
            .copied()
            .filter(|f| (*f == Family::IPV4 || *f == Family::IPV6) && rng.chance(1, 3))
            .collect();
        v.push(SpkCfg {
            addr,
            asn,
            ibgp,
            router_id: Ipv4Addr::new(2, 2, rng.below(250) as u8, 2 + i as u8),
            hold: *rng.pick(&[0u16, 45, 90, 240]),
            daemon_hold: *rng.pick(&[30u16, 90, 180]),
            fams,
            ap_fams,
            as4,
        });
    }
    v
}

fn config_yaml(asn: u32, router_id: Ipv4Addr, bgp_port: u16, spk: &[SpkCfg]) -> String {
    let mut s = format!(
        "global:\n  config:\n    as: {}\n    router-id: \"{}\"\n    port: {}\nneighbors:\n",
        asn, router_id, bgp_port
    );
    for c in spk {
        s += &format!(
            "  - config:\n      neighbor-address: \"{}\"\n      peer-as: {}\n    transport:\n      config:\n        passive-mode: true\n    timers:\n      config:\n        hold-time: {}\n    afi-safis:\n",
            c.addr, c.asn, c.daemon_hold
        );
        for f in &c.fams {
            s += &format!(
                "      - config:\n          afi-safi-name: {}\n",
                fam_cfg_name(*f)
            );
            if c.ap_fams.contains(f) {
                s += "        add-paths:\n          config:\n            receive: true\n";
            }
        }
    }
    s
}

fn port_free(p: u16) -> bool {
    std::net::TcpListener::bind(("0.0.0.0", p)).is_ok()
        && std::net::TcpListener::bind(("127.0.0.1", p)).is_ok()
}

/// Two free ports out of a block that belongs to this process (the daemon binds
/// with SO_REUSEPORT, so two concurrent shards must never pick the same one).
fn pick_ports(k: u64) -> Option<(u16, u16)> {
    let base = 10000 + (std::process::id() % 220) as u16 * 100;
    for j in 0..50u64 {
        let a = base + (((k + j) * 2) % 20) as u16;
        if port_free(a) && port_free(a + 1) {
            return Some((a, a + 1));
        }
    }
    None
}

/// A listener on a port of this process's block (20..99): independent of the state of the
/// machine's ephemeral port range, which loopback-heavy tests running in parallel can exhaust.
async fn block_listener() -> Result<tokio::net::TcpListener, String> {
    static NEXT: std::sync::atomic::AtomicU32 = std::sync::atomic::AtomicU32::new(0);
    let base = 10000 + (std::process::id() % 220) as u16 * 100;
    let mut last = String::new();
    for _ in 0..160 {
        let n = NEXT.fetch_add(1, Ordering::Relaxed);
        let p = base + 20 + (n % 80) as u16;
        match tokio::net::TcpListener::bind(("127.0.0.1", p)).await {
            Ok(l) => return Ok(l),
            Err(e) => last = format!("127.0.0.1:{}: {}", p, e),
        }
    }
    // the whole block is busy: wait for any port (retries for ~100 s on a shortage of ports)
    bind_retry(SocketAddr::new(IpAddr::V4(Ipv4Addr::LOCALHOST), 0))
        .await
        .map_err(|e| format!("{}; {}", last, e))
}

use crate::verif_hooks::{bind_retry, connect_retry, no_time_wait};

fn port_shortage(e: &std::io::Error) -> bool {
    matches!(
        e.kind(),
        std::io::ErrorKind::AddrInUse | std::io::ErrorKind::AddrNotAvailable
    )
}

#[derive(Default)]
struct SpkRx {
    notif: Option<Vec<u8>>,
    eof: bool,
    updates: u64,
}

#[derive(Clone, Copy, PartialEq, Debug)]
enum CloseKind {
    /// TCP closed without a word
    Drop,
    /// the speaker sends a NOTIFICATION, then closes
    Notify,
    /// the speaker sends garbage; the daemon answers with a NOTIFICATION and closes
    Provoke,
}

struct CloseRec {
    kind: CloseKind,
    sent: Option<Notification>,
    /// NOTIFICATION PDU received from the daemon, raw
    received: Option<Vec<u8>>,
}

struct Session {
    spk: usize,
    wr: Option<tokio::net::tcp::OwnedWriteHalf>,
    codec: PeerCodec,
    rx: Arc<Mutex<SpkRx>>,
    reader: Option<tokio::task::JoinHandle<()>>,
    my_open: Open,
    daemon_open: Open,
    my_port: u16,
    daemon_port: u16,
    daemon_ip: IpAddr,
    /// families in which the daemon receives path ids on this session
    ap_in: BTreeSet<u32>,
    model: BTreeMap<RouteKey, RouteVal>,
    /// announced and not withdrawn (marker routes excluded), for choosing withdrawals
    live: Vec<(Family, PathNlri)>,
    up_step: usize,
    down_step: Option<usize>,
    close: Option<CloseRec>,
    /// the sentinel station (#0, subscribed from the start) has read the PeerDown of this session: the daemon
    /// has queued every event of the session to every subscriber
    close_observed: bool,
}

fn frame(buf: &mut Vec<u8>) -> Option<Vec<u8>> {
    if buf.len() < 19 {
        return None;
    }
    let l = u16::from_be_bytes([buf[16], buf[17]]) as usize;
    if l < 19 || buf.len() < l {
        return None;
    }
    let rest = buf.split_off(l);
    Some(std::mem::replace(buf, rest))
}

fn encode_msg(codec: &mut PeerCodec, m: &bgp::Message) -> Vec<u8> {
    let mut b = bytes::BytesMut::new();
    let _ = codec.encode_to(m, &mut b);
    b.to_vec()
}

async fn spk_connect(
    cfg: &SpkCfg,
    idx: usize,
    bgp_port: u16,
    step: usize,
) -> Result<Session, String> {
    let mut caps: Vec<Capability> = cfg
        .fams
        .iter()
        .map(|f| Capability::MultiProtocol(*f))
        .collect();
    caps.push(Capability::RouteRefresh);
    if cfg.as4 {
        caps.push(Capability::FourOctetAsNumber(cfg.asn));
    }
    caps.push(Capability::ExtendedMessage);
    if cfg.addr.is_ipv6() {
        caps.push(Capability::ExtendedNexthop(vec![(
            Family::IPV4,
            Family::AFI_IP6,
        )]));
    }
    if !cfg.ap_fams.is_empty() {
        caps.push(Capability::AddPath(
            cfg.ap_fams.iter().map(|f| (*f, 2u8)).collect(),
        ));
    }
    let my_open = Open {
        as_number: cfg.asn,
        holdtime: HoldTime::new(cfg.hold).unwrap_or(HoldTime::DISABLED),
        router_id: u32::from(cfg.router_id),
        capability: caps.clone(),
    };
    let dst: SocketAddr = if cfg.addr.is_ipv6() {
        SocketAddr::new(IpAddr::V6(Ipv6Addr::LOCALHOST), bgp_port)
    } else {
        SocketAddr::new(IpAddr::V4(Ipv4Addr::LOCALHOST), bgp_port)
    };
    let mut last = String::new();
    for _ in 0..300 {
        let sock = if cfg.addr.is_ipv6() {
            tokio::net::TcpSocket::new_v6()
        } else {
            tokio::net::TcpSocket::new_v4()
        }
        .map_err(|e| e.to_string())?;
        if let Err(e) = sock.bind(SocketAddr::new(cfg.addr, 0)) {
            last = format!("bind {}: {}", cfg.addr, e);
            if port_shortage(&e) {
                tokio::time::sleep(Duration::from_millis(500)).await;
                continue;
            }
            return Err(last);
        }
        let mut stream = match sock.connect(dst).await {
            Ok(s) => s,
            Err(e) => {
                last = format!("connect: {}", e);
                // a temporary shortage of ports is waited out; anything else is retried quickly
                tokio::time::sleep(Duration::from_millis(if port_shortage(&e) {
                    500
                } else {
                    10
                }))
                .await;
                continue;
            }
        };
        let _ = stream.set_nodelay(true);
        no_time_wait(&stream);
        let my_port = stream.local_addr().map(|a| a.port()).unwrap_or(0);
        let (daemon_ip, daemon_port) = stream
            .peer_addr()
            .map(|a| (a.ip(), a.port()))
            .unwrap_or((dst.ip(), bgp_port));
        let mut plain = PeerCodec::new();
        if stream
            .write_all(&encode_msg(
                &mut plain,
                &bgp::Message::Open(my_open.clone()),
            ))
            .await
            .is_err()
        {
            last = "write OPEN failed".into();
            tokio::time::sleep(Duration::from_millis(5)).await;
            continue;
        }
        let mut buf: Vec<u8> = Vec::new();
        let mut tmp = vec![0u8; 65536];
        let mut daemon_open: Option<Open> = None;
        let mut established = false;
        let mut failed = false;
        let t0 = Instant::now();
        while !established && !failed && t0.elapsed() < Duration::from_secs(5) {
            while let Some(pdu) = frame(&mut buf) {
                match pdu[18] {
                    1 => {
                        if let Ok(ParsedMessage::Open(o)) = PeerCodec::new().parse_message(&pdu) {
                            daemon_open = Some(o);
                            if stream
                                .write_all(&encode_msg(&mut plain, &bgp::Message::Keepalive))
                                .await
                                .is_err()
                            {
                                failed = true;
                            }
                        } else {
                            failed = true;
                        }
                    }
                    4 => {
                        if daemon_open.is_some() {
                            established = true;
                            break;
                        }
                    }
                    3 => {
                        last = format!("daemon sent NOTIFICATION {}", hex(&pdu[19..]));
                        failed = true;
                    }
                    _ => {}
                }
            }
            if established || failed {
                break;
            }
            match tokio::time::timeout(Duration::from_millis(500), stream.read(&mut tmp)).await {
                Ok(Ok(0)) => {
                    last = "daemon closed the connection during the OPEN exchange".into();
                    failed = true;
                }
                Ok(Ok(n)) => buf.extend_from_slice(&tmp[..n]),
                Ok(Err(e)) => {
                    last = format!("read: {}", e);
                    failed = true;
                }
                Err(_) => {}
            }
        }
        if !established {
            if std::env::var("VERIF_TRACE").is_ok() {
                eprintln!(
                    "[spk_connect retry] {} port {} : {} (got open: {})",
                    cfg.addr,
                    my_port,
                    last,
                    daemon_open.is_some()
                );
            }
            // the previous session of this peer may not be cleaned up yet
            tokio::time::sleep(Duration::from_millis(5)).await;
            continue;
        }
        let daemon_open = daemon_open.unwrap();
        let codec = PeerCodec::negotiate(&caps, &daemon_open.capability);
        let mut ap_in = BTreeSet::new();
        for f in &cfg.fams {
            if codec.family_state(*f).is_some_and(|s| s.addpath_tx) {
                ap_in.insert(fam_id(*f));
            }
        }
        let (mut rd, wr) = stream.into_split();
        let rx = Arc::new(Mutex::new(SpkRx::default()));
        let rx2 = rx.clone();
        let reader = tokio::spawn(async move {
            let mut buf = buf;
            let mut tmp = vec![0u8; 65536];
            loop {
                while let Some(pdu) = frame(&mut buf) {
                    let mut g = rx2.lock().unwrap();
                    match pdu[18] {
                        3 => g.notif = Some(pdu),
                        2 => g.updates += 1,
                        _ => {}
                    }
                }
                match rd.read(&mut tmp).await {
                    Ok(0) | Err(_) => {
                        rx2.lock().unwrap().eof = true;
                        return;
                    }
                    Ok(n) => buf.extend_from_slice(&tmp[..n]),
                }
            }
        });
        return Ok(Session {
            spk: idx,
            wr: Some(wr),
            codec,
            rx,
            reader: Some(reader),
            my_open,
            daemon_open,
            my_port,
            daemon_port,
            daemon_ip,
            ap_in,
            model: BTreeMap::new(),
            live: Vec::new(),
            up_step: step,
            down_step: None,
            close: None,
            close_observed: false,
        });
    }
    Err(last)
}

/// attributes a speaker may send so that the daemon's Adj-RIB-In holds them unchanged
/// (RFC 4271 5.1.5: LOCAL_PREF / RR attributes from an eBGP peer are discarded on receipt)
fn e2e_attrs(rng: &mut Rng, cfg: &SpkCfg, tag: u32, local_asn: u32) -> Vec<Attribute> {
    let mut path = Vec::new();
    if !cfg.ibgp {
        path.push(cfg.asn);
    }
    for _ in 0..rng.below(4) {
        let a = if cfg.as4 && rng.bool() {
            4_100_000_000 + rng.below(1000) as u32
        } else {
            64700 + rng.below(200) as u32
        };
        if a != local_asn {
            path.push(a);
        }
    }
    let mut b = Vec::new();
    if !path.is_empty() {
        b.push(2u8);
        b.push(path.len() as u8);
        for a in &path {
            b.extend_from_slice(&a.to_be_bytes());
        }
    }
    let mut v = vec![
        Attribute::new_with_value(Attribute::ORIGIN, rng.below(3) as u32).unwrap(),
        Attribute::new_with_bin(Attribute::AS_PATH, b).unwrap(),
        Attribute::new_with_value(Attribute::MULTI_EXIT_DESC, tag).unwrap(),
    ];
    if cfg.ibgp {
        v.push(
            Attribute::new_with_value(Attribute::LOCAL_PREF, 50 + rng.below(200) as u32).unwrap(),
        );
    }
    let ncomm = match rng.below(40) {
        0 => rng.range(1050, 1500) as usize, // attributes alone exceed a 4096-byte frame
        1..=3 => rng.range(70, 200) as usize,
        4..=20 => rng.range(1, 8) as usize,
        _ => 0,
    };
    if ncomm > 0 {
        let mut c = Vec::new();
        for _ in 0..ncomm {
            c.extend_from_slice(&(64512u16 + rng.below(100) as u16).to_be_bytes());
            c.extend_from_slice(&(rng.below(60000) as u16).to_be_bytes());
        }
        v.push(Attribute::new_with_bin(Attribute::COMMUNITY, c).unwrap());
    }
    if rng.chance(1, 4) {
        let mut e = vec![0u8, 2];
        e.extend_from_slice(&rng.bytes(6));
        v.push(Attribute::new_with_bin(Attribute::EXTENDED_COMMUNITY, e).unwrap());
    }
    if rng.chance(1, 5) {
        v.push(Attribute::new_with_bin(Attribute::LARGE_COMMUNITY, rbytes(rng, 1, 4, 12)).unwrap());
    }
    if rng.chance(1, 10) {
        v.push(Attribute::new_with_bin(Attribute::ATOMIC_AGGREGATE, vec![]).unwrap());
    }
    v
}

struct Station {
    policy: i32,
    port: u16,
    buf: Arc<Mutex<(Vec<u8>, bool)>>,
    off: usize,
    msgs: Vec<(usize, StMsg)>,
    broken: Option<Finding>,
    seen: BTreeSet<(u8, u8, IpAddr, [u8; 3])>,
    quiescent: bool,
    connect_step: usize,
    /// models of the sessions that were up when a quiescent station connected
    at_connect: Vec<(usize, BTreeMap<RouteKey, RouteVal>)>,
}

fn policy_name(p: i32) -> &'static str {
    match p {
        1 => "pre",
        2 => "post",
        3 => "both",
        4 => "local",
        _ => "all",
    }
}

impl Station {
    /// parse the complete messages that have arrived since the last call
    fn advance(&mut self, ps: &mut Parsers) {
        if self.broken.is_some() {
            return;
        }
        let data: Vec<u8> = {
            let g = self.buf.lock().unwrap();
            g.0[self.off..].to_vec()
        };
        let mut o = 0usize;
        while data.len() - o >= 6 {
            if data[o] != 3 {
                self.broken = Some(finding(
                    "stream",
                    "common-length",
                    "the BMP byte stream does not continue with a message where the previous length field says it should",
                    format!(
                        "at stream offset {} a message should start but the version byte is {}; previous message type {:?}",
                        self.off + o,
                        data[o],
                        self.msgs.last().map(|m| match &m.1 {
                            StMsg::Initiation => 4,
                            StMsg::PeerUp { .. } => 3,
                            StMsg::PeerDown { .. } => 2,
                            StMsg::Route { .. } => 0,
                            StMsg::Other(t) => *t,
                        })
                    ),
                    &data[o.saturating_sub(200)..(o + 64).min(data.len())],
                ));
                return;
            }
            let l =
                u32::from_be_bytes([data[o + 1], data[o + 2], data[o + 3], data[o + 4]]) as usize;
            if l < 6 {
                self.broken = Some(finding(
                    "stream",
                    "common-length",
                    "BMP common header length below 6",
                    format!("{}", l),
                    &data[o..(o + 64).min(data.len())],
                ));
                return;
            }
            if data.len() - o < l {
                break;
            }
            let typ = data[o + 5];
            let body = &data[o + 6..o + l];
            match read_bmp_msg(ps, typ, body) {
                Ok(m) => {
                    if let StMsg::Route { hdr, pdu } = &m {
                        for w in pdu.windows(5) {
                            if w[0] == 32 && w[1] == 10 && (240..=250).contains(&w[2]) {
                                self.seen.insert((
                                    hdr.ptype,
                                    hdr.flags & 0x50,
                                    hdr.addr(),
                                    [w[2], w[3], w[4]],
                                ));
                            }
                        }
                    }
                    self.msgs.push((self.off + o, m));
                }
                Err((k, c, d)) => {
                    self.broken = Some(finding(
                        k,
                        &c,
                        "a BMP message read from the station socket is not well-formed",
                        d,
                        &data[o..o + l],
                    ));
                    return;
                }
            }
            o += l;
        }
        self.off += o;
    }
    /// has this station read the PeerUp of the session (identified by the speaker's source port) and a
    /// PeerDown of the peer after it?
    fn session_closed(&self, addr: IpAddr, rport: u16) -> bool {
        let mut up_seen = false;
        for (_, m) in &self.msgs {
            match m {
                StMsg::PeerUp { hdr, rport: r, .. }
                    if hdr.ptype == 0 && hdr.addr() == addr && *r == rport =>
                {
                    up_seen = true
                }
                StMsg::PeerDown { hdr, .. } if up_seen && hdr.addr() == addr => return true,
                _ => {}
            }
        }
        false
    }
    fn has_peer_up(&self, addr: IpAddr) -> bool {
        // is there a PeerUp for addr that no later PeerDown closed?
        let mut open = false;
        for (_, m) in &self.msgs {
            match m {
                StMsg::PeerUp { hdr, .. } if hdr.ptype == 0 && hdr.addr() == addr => open = true,
                StMsg::PeerDown { hdr, .. } if hdr.addr() == addr => open = false,
                _ => {}
            }
        }
        open
    }
}

struct Outcome {
    local_asn: u32,
    router_id: Ipv4Addr,
    cfgs: Vec<SpkCfg>,
    sessions: Vec<Session>,
    stations: Vec<Station>,
    /// id of the last marker sent
    final_marker: u32,
    /// sessions that were up at the final synchronisation point
    up_at_end: Vec<usize>,
    /// final synchronisation succeeded: every station saw the last marker of every session that is up
    synced: bool,
    /// after the final sync some sessions were closed and the PeerDowns awaited
    closed_at_end: bool,
    steps: Vec<String>,
    problem: Option<String>,
    /// scheduling points hit while a delay plan was installed
    sched_hits: u64,
}

struct E2eParams {
    /// more session churn, fewer routes (C18 flavour)
    churn: bool,
}

async fn e2e_script(rng: &mut Rng, ps: &mut Parsers, prm: &E2eParams, k: u64) -> Outcome {
    let local_asn = if rng.chance(2, 3) {
        65000
    } else {
        4_200_000_000 + rng.below(50) as u32
    };
    let router_id = Ipv4Addr::new(10, 255, rng.below(250) as u8, 1);
    let v6_ok = std::net::TcpListener::bind(("::1", 0)).is_ok();
    let cfgs = gen_speakers(rng, local_asn, v6_ok);
    let mut out = Outcome {
        local_asn,
        router_id,
        cfgs: cfgs.clone(),
        sessions: Vec::new(),
        stations: Vec::new(),
        final_marker: 0,
        up_at_end: Vec::new(),
        synced: false,
        closed_at_end: false,
        steps: Vec::new(),
        problem: None,
        sched_hits: 0,
    };
    let Some((bgp_port, api_port)) = pick_ports(k) else {
        out.problem = Some("no free port in this process's block".into());
        return out;
    };
    let path = format!("/verif/target/tmp/c19b-{}-{}.yaml", std::process::id(), k);
    let _ = std::fs::create_dir_all("/verif/target/tmp");
    if std::fs::write(&path, config_yaml(local_asn, router_id, bgp_port, &cfgs)).is_err() {
        out.problem = Some("cannot write the daemon config".into());
        return out;
    }
    let conf = crate::config::read_from_file(&path);
    let _ = std::fs::remove_file(&path);
    let conf = match conf {
        Ok(c) => c,
        Err(e) => {
            out.problem = Some(format!("generated config rejected: {}", e));
            return out;
        }
    };
    // ---- the code under test: the whole daemon
    tokio::spawn(crate::event::main(
        Some(conf),
        false,
        false,
        SocketAddr::new(IpAddr::V4(Ipv4Addr::LOCALHOST), api_port),
    ));
    let mut client = None;
    for _ in 0..500 {
        if let Ok(c) = api::go_bgp_service_client::GoBgpServiceClient::connect(format!(
            "http://127.0.0.1:{}",
            api_port
        ))
        .await
        {
            client = Some(c);
            break;
        }
        tokio::time::sleep(Duration::from_millis(5)).await;
    }
    let Some(mut client) = client else {
        out.problem = Some("the daemon's gRPC API did not come up".into());
        return out;
    };

    // reader tasks own the harness ends of the station sockets: aborted first at the end so that these
    // ends are closed (RST) before the daemon's
    let mut station_tasks: Vec<tokio::task::JoinHandle<()>> = Vec::new();
    let mut up: Vec<Option<usize>> = vec![None; cfgs.len()]; // speaker -> index into out.sessions
    let mut step = 0usize;
    let mut marker = 0u32;
    let mut tag = 1u32;

    macro_rules! add_station {
        ($policy:expr, $quiescent:expr) => {{
            let policy: i32 = $policy;
            match block_listener().await {
                Err(e) => out.problem = Some(format!("station listener: {}", e)),
                Ok(l) => {
                    let port = l.local_addr().map(|a| a.port()).unwrap_or(0);
                    let at_connect = if $quiescent {
                        up.iter()
                            .flatten()
                            .map(|&si| (si, out.sessions[si].model.clone()))
                            .collect()
                    } else {
                        Vec::new()
                    };
                    let r = client
                        .add_bmp(api::AddBmpRequest {
                            address: "127.0.0.1".into(),
                            port: port as u32,
                            policy,
                            statistics_timeout: 0,
                            sys_name: String::new(),
                            sys_descr: String::new(),
                        })
                        .await;
                    if let Err(e) = r {
                        out.problem = Some(format!("AddBmp: {}", e));
                    } else {
                        match tokio::time::timeout(Duration::from_secs(5), l.accept()).await {
                            Ok(Ok((mut s, _))) => {
                                no_time_wait(&s);
                                let buf = Arc::new(Mutex::new((Vec::new(), false)));
                                let b2 = buf.clone();
                                station_tasks.push(tokio::spawn(async move {
                                    let mut tmp = vec![0u8; 1 << 16];
                                    loop {
                                        match s.read(&mut tmp).await {
                                            Ok(0) | Err(_) => {
                                                b2.lock().unwrap().1 = true;
                                                return;
                                            }
                                            Ok(n) => {
                                                b2.lock().unwrap().0.extend_from_slice(&tmp[..n])
                                            }
                                        }
                                    }
                                }));
                                out.steps.push(format!(
                                    "{}: station {} policy={} quiescent={}",
                                    step,
                                    out.stations.len(),
                                    policy_name(policy),
                                    $quiescent
                                ));
                                out.stations.push(Station {
                                    policy,
                                    port,
                                    buf,
                                    off: 0,
                                    msgs: Vec::new(),
                                    broken: None,
                                    seen: BTreeSet::new(),
                                    quiescent: $quiescent,
                                    connect_step: step,
                                    at_connect,
                                });
                            }
                            _ => out.problem = Some(
                                "the daemon's BMP client did not connect to the station within 5 s"
                                    .into(),
                            ),
                        }
                    }
                }
            }
        }};
    }

    // send the marker route of every session that is up and wait until every station shows it
    macro_rules! sync {
        () => {{
            marker += 1;
            let mut want: Vec<(IpAddr, [u8; 3])> = Vec::new();
            for (i, slot) in up.iter().enumerate() {
                let Some(si) = slot else { continue };
                let s = &mut out.sessions[*si];
                let pfx = [240 + i as u8, (marker >> 8) as u8, marker as u8];
                let nlri = Nlri::V4(Ipv4Net {
                    addr: Ipv4Addr::new(10, pfx[0], pfx[1], pfx[2]),
                    mask: 32,
                });
                let ap = s.ap_in.contains(&fam_id(Family::IPV4));
                let net = PathNlri {
                    path_id: if ap { 7 } else { 0 },
                    nlri,
                };
                let mut path = Vec::new();
                if !cfgs[i].ibgp {
                    path.extend_from_slice(&[2u8, 1]);
                    path.extend_from_slice(&cfgs[i].asn.to_be_bytes());
                }
                let mut attrs = vec![
                    Attribute::new_with_value(Attribute::ORIGIN, 0).unwrap(),
                    Attribute::new_with_bin(Attribute::AS_PATH, path).unwrap(),
                ];
                if cfgs[i].ibgp {
                    attrs.push(Attribute::new_with_value(Attribute::LOCAL_PREF, 100).unwrap());
                }
                let nh = Nexthop::V4(Ipv4Addr::new(192, 0, 2, 1 + i as u8));
                let bytes = encode_msg(
                    &mut s.codec,
                    &bgp::Message::Update(bgp::Update::Reach {
                        family: Family::IPV4,
                        entries: vec![net.clone()],
                        nexthop: Some(nh),
                        attr: Arc::new(attrs.clone()),
                    }),
                );
                if let Some(w) = s.wr.as_mut() {
                    let _ = w.write_all(&bytes).await;
                }
                s.model.insert(
                    (fam_id(Family::IPV4), net.nlri.to_string(), net.path_id),
                    (attrs_canon(&attrs), nh_str(&Some(nh))),
                );
                want.push((cfgs[i].addr, pfx));
            }
            let t0 = Instant::now();
            let mut ok = false;
            while t0.elapsed() < Duration::from_secs(10) {
                ok = true;
                for st in out.stations.iter_mut() {
                    st.advance(ps);
                    if st.broken.is_some() {
                        continue;
                    }
                    for (addr, pfx) in &want {
                        let pre = st.seen.contains(&(0, 0, *addr, *pfx));
                        let post = st.seen.contains(&(0, 0x40, *addr, *pfx));
                        let loc =
                            st.seen
                                .contains(&(3, 0, IpAddr::V4(Ipv4Addr::UNSPECIFIED), *pfx));
                        let good = match st.policy {
                            1 => pre,
                            2 => post,
                            3 => pre && post,
                            4 => loc,
                            _ => pre && post && loc,
                        };
                        if !good {
                            ok = false;
                        }
                    }
                }
                if ok {
                    break;
                }
                tokio::time::sleep(Duration::from_millis(2)).await;
            }
            out.steps.push(format!(
                "{}: sync #{} {}",
                step,
                marker,
                if ok { "ok" } else { "TIMEOUT" }
            ));
            ok
        }};
    }

    macro_rules! close_session {
        ($i:expr, $kind:expr, $overlap:expr) => {{
            let i: usize = $i;
            let kind: CloseKind = $kind;
            // Some(policy): the last routes of the session, its end and the snapshot phase of a new station overlap
            let overlap: Option<i32> = $overlap;
            if let Some(si) = up[i].take() {
                let mut sent = None;
                let mut wopt = out.sessions[si].wr.take();
                let mut fin_sent = false;
                if let Some(w) = wopt.as_mut() {
                    let s = &mut out.sessions[si];
                    if overlap.is_some() {
                        // one UPDATE per prefix: many Adj-RIB-In events still to be processed when the end comes
                        let cfg = &cfgs[i];
                        let ap = s.ap_in.contains(&fam_id(Family::IPV4));
                        let mut wire = Vec::new();
                        let n = rng.range(60, 400);
                        tag += 1;
                        let attrs = Arc::new(e2e_attrs(rng, cfg, tag, local_asn));
                        for j in 0..n {
                            let net = PathNlri { path_id: if ap { 1 } else { 0 }, nlri: Nlri::V4(Ipv4Net { addr: Ipv4Addr::new(150 + i as u8, (j >> 8) as u8, j as u8, 0), mask: 24 }) };
                            let nh = Nexthop::V4(Ipv4Addr::new(192, 0, 2, 77));
                            let exp = RouteExp { family: Family::IPV4, reach: true, entries: vec![net.clone()], nexthop: Some(nh), attrs: attrs.clone(), addpath: ap };
                            wire.extend_from_slice(&encode_msg(&mut s.codec, &exp.msg()));
                            s.model.insert((fam_id(Family::IPV4), net.nlri.to_string(), net.path_id), (attrs_canon(&attrs), nh_str(&Some(nh))));
                        }
                        let _ = w.write_all(&wire).await;
                        out.steps.push(format!("{}: speaker {} announces {} routes right before its end", step, i, n));
                    }
                    match kind {
                        CloseKind::Drop => {
                            if overlap.is_some() {
                                let _ = w.shutdown().await;
                                fin_sent = true;
                            }
                        }
                        CloseKind::Notify => {
                            let dl = if rng.bool() { 0 } else { rng.range(1, 40) as usize };
                            let n = Notification::from_notification(6, *rng.pick(&[2u8, 3, 4, 6]), rng.bytes(dl));
                            let n = Notification::from_notification(n.notification_code(), n.notification_subcode(), n.notification_data().to_vec());
                            let _ = w.write_all(&encode_msg(&mut s.codec, &bgp::Message::Notification(n.clone()))).await;
                            sent = Some(n);
                        }
                        CloseKind::Provoke => {
                            // a header with an impossible length: the daemon answers with a NOTIFICATION
                            // (Bad Message Length) and closes
                            let mut g = vec![0xffu8; 16];
                            g.extend_from_slice(&[0, 5, 4]);
                            let _ = w.write_all(&g).await;
                        }
                    }
                }
                if let Some(policy) = overlap {
                    add_station!(policy, false);
                }
                if let Some(mut w) = wopt {
                    let s = &mut out.sessions[si];
                    if kind == CloseKind::Provoke {
                        let t0 = Instant::now();
                        while t0.elapsed() < Duration::from_secs(3) {
                            {
                                let g = s.rx.lock().unwrap();
                                if g.eof || g.notif.is_some() {
                                    break;
                                }
                            }
                            tokio::time::sleep(Duration::from_millis(2)).await;
                        }
                    }
                    match kind {
                        CloseKind::Drop => {
                            if fin_sent || rng.chance(1, 5) {
                                // orderly FIN (leaves this end in TIME_WAIT, hence the minority case)
                                let _ = w.shutdown().await;
                                let t0 = Instant::now();
                                while t0.elapsed() < Duration::from_secs(3) && !s.rx.lock().unwrap().eof {
                                    tokio::time::sleep(Duration::from_millis(2)).await;
                                }
                                drop(w);
                            } else {
                                // closed at once: SO_LINGER 0 => RST, as after a crash of the peer.  (Dropping an
                                // OwnedWriteHalf would send a FIN first; forget() leaves the closing to the read half.)
                                w.forget();
                                if let Some(t) = s.reader.take() {
                                    t.abort();
                                    let _ = t.await;
                                }
                            }
                        }
                        _ => {
                            // the daemon closes after the NOTIFICATION; this end then closes with RST
                            let t0 = Instant::now();
                            while t0.elapsed() < Duration::from_secs(3) && !s.rx.lock().unwrap().eof {
                                tokio::time::sleep(Duration::from_millis(2)).await;
                            }
                            // no FIN from this end: the reader task has ended at EOF and dropped the read half
                            w.forget();
                        }
                    }
                }
                let received = out.sessions[si].rx.lock().unwrap().notif.clone();
                out.sessions[si].close = Some(CloseRec { kind, sent, received });
                out.sessions[si].down_step = Some(step);
                // the sentinel station has been subscribed since before the session came up: once it has read the
                // PeerDown, tables.peer_down() has run, i.e. every event of the session is queued to every subscriber
                let addr = cfgs[i].addr;
                let t0 = Instant::now();
                let mut seen = false;
                while t0.elapsed() < Duration::from_secs(3) {
                    out.stations[0].advance(ps);
                    if out.stations[0].broken.is_some() {
                        break;
                    }
                    if out.stations[0].session_closed(addr, out.sessions[si].my_port) {
                        seen = true;
                        break;
                    }
                    tokio::time::sleep(Duration::from_millis(2)).await;
                }
                out.sessions[si].close_observed = seen;
                out.steps.push(format!("{}: speaker {} down ({:?}){}", step, i, kind, if seen { "" } else { " [PeerDown not seen on station 0]" }));
            }
        }};
    }

    // the sentinel station: connected before anything happens, sees every pre-policy change
    add_station!(*rng.pick(&[1, 3, 5]), true);
    if out.problem.is_none() {
        let _ = sync!();
    }
    let nsteps = if prm.churn {
        rng.range(10, 22)
    } else {
        rng.range(8, 18)
    } as usize;
    let mut first = true;
    while step < nsteps && out.problem.is_none() {
        step += 1;
        let r = rng.below(100);
        let i = rng.usize(cfgs.len());
        let up_w = if prm.churn { 30 } else { 20 };
        let down_w = if prm.churn { 25 } else { 8 };
        if first || r < up_w {
            first = false;
            if up[i].is_none() {
                match spk_connect(&cfgs[i], i, bgp_port, step).await {
                    Ok(s) => {
                        out.steps.push(format!(
                            "{}: speaker {} ({} AS{}) up, port {}, add-path in {:?}",
                            step, i, cfgs[i].addr, cfgs[i].asn, s.my_port, s.ap_in
                        ));
                        up[i] = Some(out.sessions.len());
                        out.sessions.push(s);
                    }
                    Err(e) => {
                        out.problem = Some(format!("speaker {} could not establish: {}", i, e))
                    }
                }
            }
        } else if r < up_w + down_w {
            let kind = *rng.pick(&[CloseKind::Drop, CloseKind::Notify, CloseKind::Provoke]);
            // churn: a station whose snapshot phase overlaps the last routes and the end of this session: the
            // session's live events / PeerDown may reach its serve loop although it never sent a PeerUp for the peer
            let overlap = if prm.churn && up[i].is_some() && rng.chance(2, 3) {
                Some(*rng.pick(&[1, 2, 3, 3, 5]))
            } else {
                None
            };
            close_session!(i, kind, overlap);
        } else if r < up_w + down_w + 12 {
            let q = rng.chance(1, 2);
            if q && !sync!() {
                out.problem =
                    Some("watchdog: a marker route did not reach every station within 10 s".into());
                break;
            }
            add_station!(rng.range(1, 5) as i32, q);
            // make sure serve() has finished its snapshot phase before anything else happens
            if q && out.problem.is_none() && !sync!() {
                out.problem =
                    Some("watchdog: a marker route did not reach every station within 10 s".into());
                break;
            }
        } else if let Some(si) = up[i] {
            // a burst of announcements / withdrawals
            let cfg = &cfgs[i];
            let s = &mut out.sessions[si];
            let n = if prm.churn {
                rng.range(1, 6)
            } else {
                rng.range(1, 25)
            } as usize;
            let mut wire = Vec::new();
            let mut nsent = 0;
            let mut nwd = 0;
            for _ in 0..n {
                if !s.live.is_empty() && rng.chance(1, 5) {
                    let k = rng.usize(s.live.len());
                    let (fam, net) = s.live.swap_remove(k);
                    let ap = s.ap_in.contains(&fam_id(fam));
                    let exp = RouteExp {
                        family: fam,
                        reach: false,
                        entries: vec![net.clone()],
                        nexthop: None,
                        attrs: Arc::new(Vec::new()),
                        addpath: ap,
                    };
                    wire.extend_from_slice(&encode_msg(&mut s.codec, &exp.msg()));
                    s.model
                        .remove(&(fam_id(fam), net.nlri.to_string(), net.path_id));
                    nwd += 1;
                    continue;
                }
                let fam = *rng.pick(&cfg.fams);
                let many = (fam == Family::IPV4 || fam == Family::IPV6) && rng.chance(1, 12);
                let cnt = if many { rng.range(20, 300) as usize } else { 1 };
                let ap = s.ap_in.contains(&fam_id(fam));
                let entries: Vec<PathNlri> = (0..cnt)
                    .map(|_| {
                        let nlri = if fam == Family::IPV4 {
                            if many {
                                Nlri::V4(Ipv4Net {
                                    addr: Ipv4Addr::new(
                                        20 + rng.below(100) as u8,
                                        rng.below(256) as u8,
                                        rng.below(256) as u8,
                                        0,
                                    ),
                                    mask: 24,
                                })
                            } else {
                                conv_v4_prefix(rng.usize(10))
                            }
                        } else if fam == Family::IPV6 {
                            if many {
                                Nlri::V6(Ipv6Net {
                                    addr: Ipv6Addr::new(
                                        0x2001,
                                        0xdb8,
                                        rng.below(65536) as u16,
                                        rng.below(65536) as u16,
                                        0,
                                        0,
                                        0,
                                        0,
                                    ),
                                    mask: 64,
                                })
                            } else {
                                conv_v6_prefix(rng.usize(6))
                            }
                        } else {
                            gen_nlri(rng, fam, true)
                        };
                        PathNlri {
                            path_id: if ap { rng.range(1, 3) as u32 } else { 0 },
                            nlri,
                        }
                    })
                    .collect();
                let nh = if fam == Family::IPV4 {
                    if cfg.addr.is_ipv6() && rng.chance(2, 3) {
                        Nexthop::V6(rand_v6(rng))
                    } else {
                        Nexthop::V4(rand_v4(rng))
                    }
                } else if fam == Family::IPV6 {
                    if rng.chance(1, 3) {
                        Nexthop::V6LinkLocal(rand_v6(rng), rand_ll(rng))
                    } else {
                        Nexthop::V6(rand_v6(rng))
                    }
                } else if rng.bool() {
                    Nexthop::V4(rand_v4(rng))
                } else {
                    Nexthop::V6(rand_v6(rng))
                };
                tag += 1;
                let attrs = Arc::new(e2e_attrs(rng, cfg, tag, local_asn));
                let exp = RouteExp {
                    family: fam,
                    reach: true,
                    entries: entries.clone(),
                    nexthop: Some(nh),
                    attrs: attrs.clone(),
                    addpath: ap,
                };
                if exp_bgp_stable(ps, &exp, !cfg.as4).is_err() {
                    continue;
                }
                wire.extend_from_slice(&encode_msg(&mut s.codec, &exp.msg()));
                for e in &entries {
                    s.model.insert(
                        (fam_id(fam), e.nlri.to_string(), e.path_id),
                        (attrs_canon(&attrs), nh_str(&Some(nh))),
                    );
                    if !s.live.iter().any(|(f, n)| *f == fam && n == e) {
                        s.live.push((fam, e.clone()));
                    }
                }
                nsent += entries.len();
            }
            if let Some(w) = s.wr.as_mut() {
                let _ = w.write_all(&wire).await;
            }
            out.steps.push(format!(
                "{}: speaker {} announces {} routes, withdraws {}",
                step, i, nsent, nwd
            ));
        }
    }
    if out.problem.is_none() && up.iter().all(|u| u.is_none()) {
        // the final synchronisation point is defined by the markers of the sessions that are up
        step += 1;
        let i = rng.usize(cfgs.len());
        match spk_connect(&cfgs[i], i, bgp_port, step).await {
            Ok(s) => {
                out.steps.push(format!(
                    "{}: speaker {} ({} AS{}) up, port {}, add-path in {:?}",
                    step, i, cfgs[i].addr, cfgs[i].asn, s.my_port, s.ap_in
                ));
                up[i] = Some(out.sessions.len());
                out.sessions.push(s);
            }
            Err(e) => out.problem = Some(format!("speaker {} could not establish: {}", i, e)),
        }
    }
    if out.problem.is_none() {
        // make sure at least one policy of each kind has been exercised over the run: one more racing station
        step += 1;
        add_station!(rng.range(1, 5) as i32, false);
        step += 1;
        // two rounds: the markers of the first may still be part of a station's snapshot flush
        // (arbitrary order); once they are on the wire that serve loop is past its snapshot phase, so
        // the markers of the second round are live events that follow everything sent before
        out.synced = sync!() && sync!();
        if !out.synced {
            out.problem = Some(
                "watchdog: the final marker routes did not reach every station within 10 s".into(),
            );
        }
    }
    // snapshot of who is up at the (synchronised) end, before the closing phase
    out.up_at_end = up.iter().flatten().copied().collect();
    out.final_marker = marker;
    if out.problem.is_none() && (prm.churn || rng.chance(1, 2)) {
        step += 1;
        out.closed_at_end = true;
        let idxs: Vec<usize> = (0..cfgs.len())
            .filter(|i| up[*i].is_some() && rng.chance(2, 3))
            .collect();
        let mut closed: Vec<IpAddr> = Vec::new();
        for i in idxs {
            let kind = *rng.pick(&[CloseKind::Drop, CloseKind::Notify, CloseKind::Provoke]);
            closed.push(cfgs[i].addr);
            close_session!(i, kind, None);
        }
        // give the PeerDowns time to arrive (absence is counted, not judged)
        let t0 = Instant::now();
        while t0.elapsed() < Duration::from_secs(3) {
            let mut pending = false;
            for st in out.stations.iter_mut() {
                st.advance(ps);
                if st.broken.is_none() && closed.iter().any(|a| st.has_peer_up(*a)) {
                    pending = true;
                }
            }
            if !pending {
                break;
            }
            tokio::time::sleep(Duration::from_millis(2)).await;
        }
    }
    for st in out.stations.iter_mut() {
        st.advance(ps);
    }
    // close the harness ends first (SO_LINGER 0 => RST): the daemon's ends are reset, nothing stays in TIME_WAIT
    for s in out.sessions.iter_mut() {
        if let Some(w) = s.wr.take() {
            w.forget();
        }
        if let Some(t) = s.reader.take() {
            t.abort();
        }
    }
    for t in station_tasks {
        t.abort();
    }
    drop(client);
    tokio::time::sleep(Duration::from_millis(5)).await;
    out
}

// ------------------------------------------------------------------ judging what a station received (C19)

fn addpath_modes(o: &Open) -> BTreeMap<u32, u8> {
    let mut m = BTreeMap::new();
    for c in &o.capability {
        if let Capability::AddPath(v) = c {
            for (f, mode) in v {
                m.insert(fam_id(*f), *mode);
            }
        }
    }
    m
}

/// The parser a station would configure from the two OPENs of the PeerUp: path
/// ids are present in the Adj-RIB-In of a family iff the local side (sent OPEN)
/// can receive and the remote side (received OPEN) can send them; the other
/// way round for Adj-RIB-Out.
fn station_codec(sent: &Open, recv: &Open, adj_out: bool) -> PeerCodec {
    let (l, r) = (addpath_modes(sent), addpath_modes(recv));
    let mut c = PeerCodec::new();
    c.extended_length = true;
    for (f, _) in FAMILIES {
        let (lm, rm) = (
            l.get(&fam_id(*f)).copied().unwrap_or(0),
            r.get(&fam_id(*f)).copied().unwrap_or(0),
        );
        let ap = if adj_out {
            lm & 2 != 0 && rm & 1 != 0
        } else {
            lm & 1 != 0 && rm & 2 != 0
        };
        c.set_family(
            *f,
            FamilyState {
                addpath_rx: ap,
                addpath_tx: ap,
            },
        );
    }
    c
}

fn open_diff(got: &Open, want: &Open) -> Vec<String> {
    let mut v = Vec::new();
    if got.as_number != want.as_number {
        v.push(format!(
            "AS {} (on the wire: {})",
            got.as_number, want.as_number
        ));
    }
    if got.holdtime.seconds() != want.holdtime.seconds() {
        v.push(format!(
            "hold time {} (on the wire: {})",
            got.holdtime.seconds(),
            want.holdtime.seconds()
        ));
    }
    if got.router_id != want.router_id {
        v.push(format!(
            "BGP identifier {} (on the wire: {})",
            Ipv4Addr::from(got.router_id),
            Ipv4Addr::from(want.router_id)
        ));
    }
    if format!("{:?}", got.capability) != format!("{:?}", want.capability) {
        v.push(format!(
            "capabilities {:?} (on the wire: {:?})",
            got.capability, want.capability
        ));
    }
    v
}

fn check_loc_rib_peer_up(
    hdr: &PeerHdr,
    local16: &[u8; 16],
    lport: u16,
    rport: u16,
    sent: &Open,
    recv: &Open,
    router_id: Ipv4Addr,
    local_asn: u32,
) -> Result<(), (String, &'static str, String)> {
    let e = HdrExp {
        ptype: 3,
        flags: 0,
        addr: IpAddr::V4(Ipv4Addr::UNSPECIFIED),
        asn: local_asn,
        id: router_id.octets(),
        ts: None,
    };
    check_hdr(hdr, &e).map_err(|(c, d)| (format!("loc-rib-{}", c), "per-peer header of the Loc-RIB PeerUp (RFC 9069 4.1: peer type 3, zero-filled address, local AS / BGP ID)", d))?;
    if *local16 != [0u8; 16] || lport != 0 || rport != 0 {
        return Err((
            "loc-rib-local-address".into(),
            "RFC 9069 5.1: local address and ports of the Loc-RIB PeerUp are zero",
            format!("{} {} {}", hex(local16), lport, rport),
        ));
    }
    for (which, o) in [("sent", sent), ("received", recv)] {
        if o.as_number != local_asn {
            return Err((
                "loc-rib-open-as-lost".into(),
                "the fabricated OPEN of the Loc-RIB PeerUp does not parse back to the local AS (a 4-byte AS without the 4-octet-AS capability reads as AS_TRANS)",
                format!(
                    "{} OPEN parses back as AS{} ({}), local AS is {}",
                    which,
                    o.as_number,
                    open_str(o),
                    local_asn
                ),
            ));
        }
        if o.router_id != u32::from(router_id) {
            return Err((
                "loc-rib-open-id".into(),
                "the fabricated OPEN of the Loc-RIB PeerUp does not carry the router id",
                format!("{} OPEN {}", which, open_str(o)),
            ));
        }
    }
    if !open_eq(sent, recv) {
        return Err((
            "loc-rib-open-differ".into(),
            "RFC 9069 5.1: the received OPEN repeats the sent OPEN",
            format!("{} vs {}", open_str(sent), open_str(recv)),
        ));
    }
    Ok(())
}

struct UpInfo {
    sess: Option<usize>,
    cin: PeerCodec,
    cout: PeerCodec,
    from_global: bool,
}

fn map_diff(
    got: &BTreeMap<RouteKey, RouteVal>,
    want: &BTreeMap<RouteKey, RouteVal>,
) -> (&'static str, String) {
    let missing: Vec<&RouteKey> = want.keys().filter(|k| !got.contains_key(*k)).collect();
    let extra: Vec<&RouteKey> = got.keys().filter(|k| !want.contains_key(*k)).collect();
    let differ: Vec<&RouteKey> = want
        .keys()
        .filter(|k| got.get(*k).is_some_and(|g| g != &want[*k]))
        .collect();
    let strip = |v: &[&RouteKey]| {
        v.iter()
            .map(|k| (k.0, k.1.clone()))
            .collect::<BTreeSet<_>>()
    };
    let clause = if !missing.is_empty() && !extra.is_empty() && strip(&missing) == strip(&extra) {
        "path-id-differs"
    } else if !missing.is_empty() {
        "routes-missing"
    } else if !extra.is_empty() {
        "routes-extra"
    } else if differ.iter().all(|k| got[*k].0 == want[*k].0) {
        "nexthop-differs"
    } else {
        "attrs-differ"
    };
    let show = |v: &[&RouteKey]| {
        v.iter()
            .take(4)
            .map(|k| format!("{:?}", k))
            .collect::<Vec<_>>()
            .join(", ")
    };
    let d0 = differ
        .first()
        .map(|k| {
            format!(
                "{:?}: station has [{}] nh {} ; announced [{}] nh {}",
                k,
                short(&got[*k].0, 300),
                got[*k].1,
                short(&want[*k].0, 300),
                want[*k].1
            )
        })
        .unwrap_or_default();
    (
        clause,
        format!(
            "announced {} routes, station holds {}; missing {} [{}]; unexpected {} [{}]; differing {} {}",
            want.len(),
            got.len(),
            missing.len(),
            show(&missing),
            extra.len(),
            show(&extra),
            differ.len(),
            d0
        ),
    )
}

fn judge_station_c19(rep: &mut Report, ps: &mut Parsers, out: &Outcome, sti: usize, hseed: u64) {
    let st = &out.stations[sti];
    let pol = policy_name(st.policy);
    let ctx = |extra: Vec<(&str, Json)>| -> Json {
        let mut v = vec![
            (
                "station",
                Json::s(format!(
                    "#{} policy={} connected at step {} quiescent={}",
                    sti, pol, st.connect_step, st.quiescent
                )),
            ),
            (
                "daemon",
                Json::s(format!("AS{} router-id {}", out.local_asn, out.router_id)),
            ),
            (
                "speakers",
                Json::strs(out.cfgs.iter().map(|c| {
                    format!(
                        "{} AS{} id {} hold {} (daemon hold {}) fams {:?} add-path {:?} as4={}",
                        c.addr,
                        c.asn,
                        c.router_id,
                        c.hold,
                        c.daemon_hold,
                        c.fams.iter().map(|f| fam_name(*f)).collect::<Vec<_>>(),
                        c.ap_fams.iter().map(|f| fam_name(*f)).collect::<Vec<_>>(),
                        c.as4
                    )
                })),
            ),
            ("script", Json::strs(out.steps.iter().cloned())),
        ];
        v.extend(extra);
        Json::obj(v)
    };
    if let Some(f) = &st.broken {
        report(
            rep,
            Finding {
                sig: f.sig.clone(),
                what: f.what.clone(),
                detail: f.detail.clone(),
                bytes: f.bytes.clone(),
            },
            ctx(vec![]),
            hseed,
        );
    }
    let want_pre = matches!(st.policy, 1 | 3 | 5);
    let want_post = matches!(st.policy, 2 | 3 | 5);
    let want_loc = matches!(st.policy, 4 | 5);
    let mut up: BTreeMap<IpAddr, UpInfo> = BTreeMap::new();
    // sessions whose PeerDown this station has been found to have read
    let mut downs_matched: BTreeSet<usize> = BTreeSet::new();
    let mut folds: BTreeMap<(IpAddr, u8), BTreeMap<RouteKey, RouteVal>> = BTreeMap::new();
    let mut locrib: BTreeMap<RouteKey, RouteVal> = BTreeMap::new();
    let mut eor_at: BTreeMap<(IpAddr, u8, u32), usize> = BTreeMap::new();
    let mut first_at: BTreeMap<(IpAddr, u8, RouteKey), usize> = BTreeMap::new();
    let mut loc_codec = PeerCodec::new();
    loc_codec.extended_length = true;
    for (f, _) in FAMILIES {
        loc_codec.set_family(*f, FamilyState::default());
    }
    let mut final_done = !out.synced;
    let mk = out.final_marker;
    let marker_key = |spk: usize, pid: u32| -> RouteKey {
        (
            fam_id(Family::IPV4),
            format!("10.{}.{}.{}/32", 240 + spk, (mk >> 8) & 255, mk & 255),
            pid,
        )
    };

    for (mi, (_off, m)) in st.msgs.iter().enumerate() {
        rep.eval();
        match m {
            StMsg::Initiation => rep.count(if mi == 0 {
                "e2e:initiation-first"
            } else {
                "e2e:initiation-later"
            }),
            StMsg::Other(t) => rep.count(&format!("unjudged:e2e-message-type-{}", t)),
            StMsg::PeerUp {
                hdr,
                local16,
                lport,
                rport,
                sent,
                recv,
            } if hdr.ptype == 3 => {
                match check_loc_rib_peer_up(
                    hdr,
                    local16,
                    *lport,
                    *rport,
                    sent,
                    recv,
                    out.router_id,
                    out.local_asn,
                ) {
                    Ok(()) => {
                        rep.count("e2e:peer-up/loc-rib");
                        rep.nontrivial(fnv64(
                            format!("locup{}{}", out.local_asn, out.router_id).as_bytes(),
                        ));
                    }
                    Err((c, what, d)) => report(
                        rep,
                        finding("peer-up", &c, what, d, &[]),
                        ctx(vec![]),
                        hseed,
                    ),
                }
            }
            StMsg::PeerUp {
                hdr,
                local16,
                lport,
                rport,
                sent,
                recv,
            } => {
                let addr = hdr.addr();
                let sess = out
                    .sessions
                    .iter()
                    .position(|s| out.cfgs[s.spk].addr == addr && s.my_port == *rport);
                // reconstructed from Global (Peer::bmp_peer_up) or a live BgpEvent::PeerUp?  The session was established
                // before the station connected and nothing but PeerUps precede it (heuristic; used for counters / witnesses only)
                let from_global = sess.is_some_and(|si| out.sessions[si].up_step < st.connect_step)
                    && st.msgs[..mi]
                        .iter()
                        .all(|(_, m)| matches!(m, StMsg::Initiation | StMsg::PeerUp { .. }));
                let label = if from_global { "from-global" } else { "live" };
                if up.contains_key(&addr) {
                    rep.count("unjudged:e2e-duplicate-peer-up");
                }
                up.insert(
                    addr,
                    UpInfo {
                        sess,
                        cin: station_codec(sent, recv, false),
                        cout: station_codec(sent, recv, true),
                        from_global,
                    },
                );
                let Some(si) = sess else {
                    rep.count("unjudged:e2e-peer-up-of-unrecorded-session");
                    continue;
                };
                let s = &out.sessions[si];
                let cfg = &out.cfgs[s.spk];
                let e = HdrExp {
                    ptype: 0,
                    flags: 0,
                    addr: cfg.addr,
                    asn: cfg.asn,
                    id: cfg.router_id.octets(),
                    ts: None,
                };
                let mut fail: Option<Finding> = None;
                if let Err((c, d)) = check_hdr(hdr, &e) {
                    fail = Some(finding(
                        "peer-up",
                        &c,
                        "per-peer header of the PeerUp does not describe the peer",
                        d,
                        &[],
                    ));
                } else if *local16 != ip16(&s.daemon_ip) {
                    fail = Some(finding(
                        "peer-up",
                        "local-address",
                        "PeerUp local address is not the address the session's TCP connection ends on",
                        format!("{} expected {}", hex(local16), s.daemon_ip),
                        &[],
                    ));
                } else if *lport != s.daemon_port || *rport != s.my_port {
                    fail = Some(finding(
                        "peer-up",
                        "ports",
                        "PeerUp ports are not the ports of the session's TCP connection",
                        format!(
                            "local {} remote {} expected {} / {}",
                            lport, rport, s.daemon_port, s.my_port
                        ),
                        &[],
                    ));
                } else {
                    let ds = open_diff(sent, &s.daemon_open);
                    let dr = open_diff(recv, &s.my_open);
                    if !ds.is_empty() {
                        fail = Some(finding(
                            "peer-up",
                            "sent-open-differs",
                            "the Sent OPEN in the PeerUp is not the OPEN the daemon sent on this session",
                            format!(
                                "PeerUp ({}) says {}; differing: {}",
                                label,
                                open_str(sent),
                                ds.join("; ")
                            ),
                            &[],
                        ));
                    } else if !dr.is_empty() {
                        fail = Some(finding(
                            "peer-up",
                            "received-open-differs",
                            "the Received OPEN in the PeerUp is not the OPEN the peer sent on this session",
                            format!(
                                "PeerUp ({}) says {}; differing: {}",
                                label,
                                open_str(recv),
                                dr.join("; ")
                            ),
                            &[],
                        ));
                    }
                }
                match fail {
                    Some(f) => report(
                        rep,
                        f,
                        ctx(vec![
                            ("peer", Json::s(cfg.addr.to_string())),
                            ("peer_up_origin", Json::s(label)),
                            ("daemon_open_on_wire", Json::s(open_str(&s.daemon_open))),
                            ("peer_open_on_wire", Json::s(open_str(&s.my_open))),
                        ]),
                        hseed,
                    ),
                    None => {
                        rep.count(&format!("e2e:peer-up/{}", label));
                        rep.count(if addr.is_ipv6() {
                            "e2e:peer-up/v6"
                        } else {
                            "e2e:peer-up/v4"
                        });
                        rep.nontrivial(fnv64(
                            format!("up{}{}{:?}", open_str(sent), open_str(recv), addr).as_bytes(),
                        ));
                    }
                }
            }
            StMsg::PeerDown { hdr, reason, data } => {
                let addr = hdr.addr();
                folds.retain(|k, _| k.0 != addr);
                let Some(info) = up.remove(&addr) else {
                    rep.count("unjudged:e2e-peer-down-without-peer-up");
                    continue;
                };
                let Some(si) = info.sess else { continue };
                let s = &out.sessions[si];
                let cfg = &out.cfgs[s.spk];
                let e = HdrExp {
                    ptype: 0,
                    flags: 0,
                    addr: cfg.addr,
                    asn: cfg.asn,
                    id: cfg.router_id.octets(),
                    ts: None,
                };
                let parsed = if *reason == 1 || *reason == 3 {
                    match ps.parse(data, false, false) {
                        Ok(ParsedMessage::Notification(n)) => Some(n),
                        _ => None,
                    }
                } else {
                    None
                };
                // does this PeerDown say how session `x` ended?  Err(clause, what, detail); Ok(false) = not observed
                let mut against =
                    |x: &Session| -> Result<bool, (&'static str, &'static str, String)> {
                        let Some(cl) = &x.close else { return Ok(false) };
                        match (cl.kind, &cl.sent, &cl.received) {
                            (CloseKind::Notify, Some(n), _) => {
                                if *reason != 3 {
                                    return Err((
                                        "reason/remote-notification",
                                        "the peer ended the session with a NOTIFICATION; the PeerDown does not say so (reason 3 + the NOTIFICATION)",
                                        format!(
                                            "reason {} data {}; peer sent {}",
                                            reason,
                                            hex(data),
                                            notif_str(n)
                                        ),
                                    ));
                                }
                                if !parsed.as_ref().is_some_and(|g| notif_eq(g, n)) {
                                    return Err((
                                        "notification-differs/remote",
                                        "NOTIFICATION in the PeerDown is not the one the peer sent",
                                        format!(
                                            "PeerDown carries {:?}; peer sent {}",
                                            parsed.as_ref().map(notif_str),
                                            notif_str(n)
                                        ),
                                    ));
                                }
                                Ok(true)
                            }
                            (CloseKind::Provoke, _, Some(raw)) => {
                                let wire = match ps.parse(raw, false, false) {
                                    Ok(ParsedMessage::Notification(n)) => n,
                                    _ => return Ok(false),
                                };
                                if *reason != 1 {
                                    return Err((
                                        "reason/local-notification",
                                        "the daemon ended the session with a NOTIFICATION; the PeerDown does not say so (reason 1 + the NOTIFICATION)",
                                        format!(
                                            "reason {} data {}; daemon sent {}",
                                            reason,
                                            hex(data),
                                            notif_str(&wire)
                                        ),
                                    ));
                                }
                                if !parsed.as_ref().is_some_and(|g| notif_eq(g, &wire)) {
                                    return Err((
                                        "notification-differs/local",
                                        "NOTIFICATION in the PeerDown is not the one the daemon sent",
                                        format!(
                                            "PeerDown carries {:?}; daemon sent {}",
                                            parsed.as_ref().map(notif_str),
                                            notif_str(&wire)
                                        ),
                                    ));
                                }
                                Ok(true)
                            }
                            (CloseKind::Drop, _, _) => {
                                if *reason == 1 || *reason == 3 {
                                    return Err((
                                        "reason/no-notification",
                                        "the session ended without any NOTIFICATION but the PeerDown carries one",
                                        format!("reason {} data {}", reason, hex(data)),
                                    ));
                                }
                                Ok(true)
                            }
                            _ => Ok(false),
                        }
                    };
                let mut fail: Option<Finding> = None;
                let mut stale = false;
                if let Err((c, d)) = check_hdr(hdr, &e) {
                    fail = Some(finding(
                        "peer-down",
                        &c,
                        "per-peer header of the PeerDown does not describe the peer",
                        d,
                        &[],
                    ));
                } else if s.close.is_none() {
                    rep.count("unjudged:e2e-peer-down-of-session-still-open");
                } else {
                    match against(s) {
                        Ok(true) => {
                            downs_matched.insert(si);
                        }
                        Ok(false) => rep.count("unjudged:e2e-peer-down-close-not-observed"),
                        Err((c, what, d)) => {
                            // BMP has no session identity: the PeerUp the station holds names the session by its
                            // ports, a PeerDown only the peer.  A station that joined while the *previous* session
                            // of this peer was ending can read that session's PeerDown (queued before) after the
                            // PeerUp of the new session (read from Global later): judged against that session.
                            let prev = out
                                .sessions
                                .iter()
                                .enumerate()
                                .filter(|(_, x)| x.spk == s.spk && x.up_step < s.up_step)
                                .max_by_key(|(_, x)| x.up_step);
                            match prev {
                                Some((pi, px))
                                    if !st.quiescent
                                        && !downs_matched.contains(&pi)
                                        && px.down_step.is_some_and(|d| d >= st.connect_step)
                                        && matches!(against(px), Ok(true)) =>
                                {
                                    downs_matched.insert(pi);
                                    stale = true;
                                    rep.count("unjudged:e2e-peer-down-of-previous-session-after-peer-up-of-the-next");
                                }
                                _ => fail = Some(finding("peer-down", c, what, d, &[])),
                            }
                        }
                    }
                }
                match fail {
                    Some(f) => report(
                        rep,
                        f,
                        ctx(vec![
                            ("peer", Json::s(cfg.addr.to_string())),
                            (
                                "close",
                                Json::s(format!(
                                    "{:?} (session with source port {}, paired by the ports of the PeerUp the station holds)",
                                    s.close.as_ref().map(|c| c.kind),
                                    s.my_port
                                )),
                            ),
                        ]),
                        hseed,
                    ),
                    None => {
                        rep.count(&format!("e2e:peer-down/reason-{}", reason));
                        if info.from_global && !stale {
                            rep.count("e2e:peer-down-after-reconstructed-peer-up");
                        }
                        if *reason == 1 || *reason == 3 {
                            rep.nontrivial(fnv64(data));
                        }
                    }
                }
            }
            StMsg::Route { hdr, pdu } if hdr.ptype == 3 => {
                let e = HdrExp {
                    ptype: 3,
                    flags: 0,
                    addr: IpAddr::V4(Ipv4Addr::UNSPECIFIED),
                    asn: out.local_asn,
                    id: out.router_id.octets(),
                    ts: None,
                };
                if let Err((c, d)) = check_hdr(hdr, &e) {
                    report(
                        rep,
                        finding(
                            "route-monitoring",
                            &format!("loc-rib-{}", c),
                            "per-peer header of a Loc-RIB RouteMonitoring (RFC 9069 4.1)",
                            d,
                            pdu,
                        ),
                        ctx(vec![]),
                        hseed,
                    );
                    continue;
                }
                match guard(|| loc_codec.parse_message(pdu)) {
                    Ok(Ok(ParsedMessage::Update(u))) => {
                        fold_update(
                            u,
                            &mut locrib,
                            None,
                            mi,
                            &mut BTreeMap::new(),
                            &mut BTreeMap::new(),
                            IpAddr::V4(Ipv4Addr::UNSPECIFIED),
                            0,
                        );
                        rep.count("e2e:rm/loc-rib");
                        rep.nontrivial(fnv64(pdu));
                    }
                    Ok(Ok(_)) => report(
                        rep,
                        finding(
                            "route-monitoring",
                            "pdu-type/loc-rib",
                            "embedded PDU is not an UPDATE",
                            String::new(),
                            pdu,
                        ),
                        ctx(vec![]),
                        hseed,
                    ),
                    Ok(Err(n)) => report(
                        rep,
                        finding(
                            "route-monitoring",
                            "pdu-unparsable/loc-rib",
                            "embedded UPDATE of a Loc-RIB RouteMonitoring is not readable by the repository's parser",
                            format!("{:?}", n),
                            pdu,
                        ),
                        ctx(vec![]),
                        hseed,
                    ),
                    Err(p) => report(
                        rep,
                        finding(
                            "route-monitoring",
                            &format!("panic/{}:{}", p.location, panic_class(&p.message)),
                            "repository parser panicked on an embedded UPDATE",
                            p.message,
                            pdu,
                        ),
                        ctx(vec![]),
                        hseed,
                    ),
                }
            }
            StMsg::Route { hdr, pdu } => {
                let addr = hdr.addr();
                let view = hdr.flags & 0x50;
                let Some(info) = up.get_mut(&addr) else {
                    rep.count("unjudged:e2e-route-monitoring-without-peer-up");
                    if rep.params.flag("trace") {
                        eprintln!(
                            "[peer-msgs] {:?}",
                            st.msgs
                                .iter()
                                .enumerate()
                                .filter_map(|(i, (_, m))| match m {
                                    StMsg::PeerUp { hdr, rport, .. } => Some(format!(
                                        "#{} up {} t{} rport {}",
                                        i,
                                        hdr.addr(),
                                        hdr.ptype,
                                        rport
                                    )),
                                    StMsg::PeerDown { hdr, reason, .. } =>
                                        Some(format!("#{} down {} r{}", i, hdr.addr(), reason)),
                                    _ => None,
                                })
                                .collect::<Vec<_>>()
                        );
                        let mut hist: BTreeMap<String, (usize, usize, usize)> = BTreeMap::new();
                        for (i, (_, m)) in st.msgs.iter().enumerate() {
                            if let StMsg::Route { hdr, .. } = m {
                                let e = hist
                                    .entry(format!(
                                        "{} t{} f{:02x}",
                                        hdr.addr(),
                                        hdr.ptype,
                                        hdr.flags
                                    ))
                                    .or_insert((i, i, 0));
                                e.1 = i;
                                e.2 += 1;
                            }
                        }
                        eprintln!("[rm-hist first,last,count] {:?}", hist);
                        eprintln!(
                            "[first msgs of this station] {:?}",
                            st.msgs
                                .iter()
                                .take(6)
                                .map(|(o, m)| match m {
                                    StMsg::Initiation => format!("@{} init", o),
                                    StMsg::PeerUp { hdr, .. } =>
                                        format!("@{} up {}", o, hdr.addr()),
                                    StMsg::PeerDown { hdr, .. } =>
                                        format!("@{} down {}", o, hdr.addr()),
                                    StMsg::Route { hdr, pdu } => format!(
                                        "@{} rm {} f{:02x} len{}",
                                        o,
                                        hdr.addr(),
                                        hdr.flags,
                                        pdu.len()
                                    ),
                                    StMsg::Other(t) => format!("@{} other {}", o, t),
                                })
                                .collect::<Vec<_>>()
                        );
                        for (xi, x) in out.stations.iter().enumerate() {
                            eprintln!(
                                "[station {} policy {} connect {}] {:?}",
                                xi,
                                policy_name(x.policy),
                                x.connect_step,
                                x.msgs
                                    .iter()
                                    .enumerate()
                                    .filter_map(|(i, (_, m))| match m {
                                        StMsg::PeerUp { hdr, rport, .. } => Some(format!(
                                            "#{} up {} t{} rport {}",
                                            i,
                                            hdr.addr(),
                                            hdr.ptype,
                                            rport
                                        )),
                                        StMsg::PeerDown { hdr, reason, .. } =>
                                            Some(format!("#{} down {} r{}", i, hdr.addr(), reason)),
                                        _ => None,
                                    })
                                    .collect::<Vec<_>>()
                            );
                        }
                        for s in &out.sessions {
                            eprintln!(
                                "[session] spk {} port {} up_step {} down {:?} model {} close {:?}",
                                s.spk,
                                s.my_port,
                                s.up_step,
                                s.down_step,
                                s.model.len(),
                                s.close.as_ref().map(|c| c.kind)
                            );
                        }
                        eprintln!(
                            "[rm-without-peer-up] station #{} policy={} connect_step={} msg#{} peer={} flags={:02x} pdu={} prev={:?} steps={:?}",
                            sti,
                            pol,
                            st.connect_step,
                            mi,
                            addr,
                            hdr.flags,
                            hex(&pdu[..pdu.len().min(60)]),
                            st.msgs[mi.saturating_sub(3)..mi]
                                .iter()
                                .map(|(_, m)| match m {
                                    StMsg::PeerUp { hdr, .. } => format!("up {}", hdr.addr()),
                                    StMsg::PeerDown { hdr, .. } => format!("down {}", hdr.addr()),
                                    StMsg::Route { hdr, .. } =>
                                        format!("rm {} {:02x}", hdr.addr(), hdr.flags),
                                    _ => "other".into(),
                                })
                                .collect::<Vec<_>>(),
                            out.steps
                        );
                    }
                    continue;
                };
                if let Some(si) = info.sess {
                    let cfg = &out.cfgs[out.sessions[si].spk];
                    if hdr.asn != cfg.asn
                        || hdr.id != cfg.router_id.octets()
                        || hdr.flags & 0x2f != 0
                        || hdr.rd != 0
                    {
                        report(
                            rep,
                            finding(
                                "route-monitoring",
                                "peer-header",
                                "per-peer header of a RouteMonitoring does not describe the peer (AS / BGP ID / flags)",
                                format!(
                                    "AS{} id {} flags {:02x}; peer is AS{} id {}",
                                    hdr.asn,
                                    hex(&hdr.id),
                                    hdr.flags,
                                    cfg.asn,
                                    cfg.router_id
                                ),
                                pdu,
                            ),
                            ctx(vec![("peer", Json::s(addr.to_string()))]),
                            hseed,
                        );
                        continue;
                    }
                }
                let vname = match view {
                    0 => "pre",
                    0x40 => "post",
                    0x10 => "out-pre",
                    _ => "out-post",
                };
                let codec = if view & 0x10 != 0 {
                    &mut info.cout
                } else {
                    &mut info.cin
                };
                match guard(|| codec.parse_message(pdu)) {
                    Ok(Ok(ParsedMessage::Update(u))) => {
                        if let ParsedUpdate::Routes { error_attrs, .. } = &u {
                            if !error_attrs.is_empty() {
                                report(
                                    rep,
                                    finding(
                                        "route-monitoring",
                                        &format!("pdu-attr-error/{}", vname),
                                        "the repository's parser flags attribute errors in an embedded UPDATE (with the add-path setting the PeerUp states)",
                                        format!(
                                            "codes {:?}",
                                            error_attrs
                                                .iter()
                                                .map(|e| e.attr_code)
                                                .collect::<Vec<_>>()
                                        ),
                                        pdu,
                                    ),
                                    ctx(vec![("peer", Json::s(addr.to_string()))]),
                                    hseed,
                                );
                                continue;
                            }
                        }
                        let m = folds.entry((addr, view)).or_default();
                        fold_update(u, m, Some(()), mi, &mut eor_at, &mut first_at, addr, view);
                        rep.count(&format!("e2e:rm/{}", vname));
                        rep.count(if addr.is_ipv6() {
                            "e2e:rm/peer-v6"
                        } else {
                            "e2e:rm/peer-v4"
                        });
                        if pdu.len() > 4096 {
                            rep.count("e2e:rm/pdu-exceeds-4096");
                        }
                        rep.nontrivial(fnv64(pdu) ^ view as u64);
                    }
                    Ok(Ok(_)) => report(
                        rep,
                        finding(
                            "route-monitoring",
                            &format!("pdu-type/{}", vname),
                            "embedded PDU is not an UPDATE",
                            String::new(),
                            pdu,
                        ),
                        ctx(vec![]),
                        hseed,
                    ),
                    Ok(Err(n)) => report(
                        rep,
                        finding(
                            "route-monitoring",
                            &format!("pdu-unparsable/{}", vname),
                            "embedded UPDATE is not readable by the repository's parser with the add-path setting the PeerUp's OPENs state",
                            format!("{:?}", n),
                            pdu,
                        ),
                        ctx(vec![("peer", Json::s(addr.to_string()))]),
                        hseed,
                    ),
                    Err(p) => report(
                        rep,
                        finding(
                            "route-monitoring",
                            &format!("panic/{}:{}", p.location, panic_class(&p.message)),
                            "repository parser panicked on an embedded UPDATE",
                            p.message,
                            pdu,
                        ),
                        ctx(vec![]),
                        hseed,
                    ),
                }
            }
        }
        // ---- the synchronisation point: every final marker has arrived in every subscribed view
        if !final_done && st.broken.is_none() {
            let all = out.up_at_end.iter().all(|&si| {
                let s = &out.sessions[si];
                let addr = out.cfgs[s.spk].addr;
                let pid = if s.ap_in.contains(&fam_id(Family::IPV4)) {
                    7
                } else {
                    0
                };
                let k = marker_key(s.spk, pid);
                (!want_pre || folds.get(&(addr, 0)).is_some_and(|m| m.contains_key(&k)))
                    && (!want_post || folds.get(&(addr, 0x40)).is_some_and(|m| m.contains_key(&k)))
                    && (!want_loc || locrib.contains_key(&(k.0, k.1.clone(), 0)))
            });
            if all {
                final_done = true;
                for &si in &out.up_at_end {
                    let s = &out.sessions[si];
                    let addr = out.cfgs[s.spk].addr;
                    for (want, view, vname) in [(want_pre, 0u8, "pre"), (want_post, 0x40u8, "post")]
                    {
                        if !want {
                            continue;
                        }
                        rep.eval();
                        let empty = BTreeMap::new();
                        let got = folds.get(&(addr, view)).unwrap_or(&empty);
                        if *got == s.model {
                            rep.count(&format!("e2e:rib-view-compared/{}", vname));
                            rep.count_n("e2e:routes-compared", got.len() as u64);
                            if !s.ap_in.is_empty() {
                                rep.count("e2e:rib-view-compared/add-path-session");
                            }
                        } else {
                            let (c, d) = map_diff(got, &s.model);
                            report(
                                rep,
                                finding(
                                    "route-monitoring",
                                    &format!("rib-view-{}/{}", c, vname),
                                    "the Adj-RIB-In a station reconstructs from the RouteMonitoring messages of a peer is not what the peer announced",
                                    d,
                                    &[],
                                ),
                                ctx(vec![
                                    ("peer", Json::s(addr.to_string())),
                                    ("add_path_families", Json::s(format!("{:?}", s.ap_in))),
                                ]),
                                hseed,
                            );
                        }
                    }
                }
                if want_loc {
                    rep.eval();
                    let mut cands: BTreeMap<(u32, String), Vec<&RouteVal>> = BTreeMap::new();
                    for &si in &out.up_at_end {
                        for (k, v) in &out.sessions[si].model {
                            cands.entry((k.0, k.1.clone())).or_default().push(v);
                        }
                    }
                    let mut bad: Option<(String, String)> = None;
                    for (k, v) in &locrib {
                        match cands.get(&(k.0, k.1.clone())) {
                            None => {
                                bad = Some((
                                    "loc-rib-route-not-in-rib".into(),
                                    format!(
                                        "{:?} is in the station's Loc-RIB but no peer announces it",
                                        k
                                    ),
                                ))
                            }
                            Some(c) if !c.contains(&v) => {
                                bad = Some((
                                    "loc-rib-content-differs".into(),
                                    format!(
                                        "{:?}: station has [{}] nh {}; announced candidates: {:?}",
                                        k,
                                        short(&v.0, 200),
                                        v.1,
                                        c.iter()
                                            .take(3)
                                            .map(|x| format!("[{}] nh {}", short(&x.0, 200), x.1))
                                            .collect::<Vec<_>>()
                                    ),
                                ))
                            }
                            _ => {}
                        }
                    }
                    for k in cands.keys() {
                        if !locrib.contains_key(&(k.0, k.1.clone(), 0)) {
                            bad = Some((
                                "loc-rib-route-missing".into(),
                                format!(
                                    "{:?} is announced by a peer but not in the station's Loc-RIB",
                                    k
                                ),
                            ));
                        }
                    }
                    match bad {
                        Some((c, d)) => report(
                            rep,
                            finding(
                                "route-monitoring",
                                &c,
                                "the Loc-RIB a station reconstructs is not made of the announced routes",
                                d,
                                &[],
                            ),
                            ctx(vec![]),
                            hseed,
                        ),
                        None => {
                            rep.count("e2e:rib-view-compared/loc-rib");
                            rep.count_n("e2e:routes-compared", locrib.len() as u64);
                        }
                    }
                }
            }
        }
    }
    if out.synced && !final_done && st.broken.is_none() {
        rep.count("unjudged:e2e-final-markers-not-found-by-the-judge");
    }
    // ---- snapshot of a station that connected at a quiescent point: routes, then End-of-RIB per family
    if st.quiescent && st.broken.is_none() && out.problem.is_none() {
        for (si, model) in &st.at_connect {
            let s = &out.sessions[*si];
            let addr = out.cfgs[s.spk].addr;
            for (want, view, vname) in [(want_pre, 0u8, "pre"), (want_post, 0x40u8, "post")] {
                if !want || model.is_empty() {
                    continue;
                }
                rep.eval();
                let fams: BTreeSet<u32> = model.keys().map(|k| k.0).collect();
                let mut bad: Option<(String, String)> = None;
                for f in fams {
                    match eor_at.get(&(addr, view, f)) {
                        None => {
                            bad = Some((
                                "snapshot-eor-missing".into(),
                                format!(
                                    "peer {} had {} routes of family {:08x} when the station connected; no End-of-RIB for it in the {} view",
                                    addr,
                                    model.keys().filter(|k| k.0 == f).count(),
                                    f,
                                    vname
                                ),
                            ))
                        }
                        Some(&e) => {
                            for k in model.keys().filter(|k| k.0 == f) {
                                match first_at.get(&(addr, view, k.clone())) {
                                    Some(&i) if i < e => {}
                                    _ => {
                                        bad = Some((
                                            "snapshot-route-after-eor".into(),
                                            format!(
                                                "peer {} route {:?} held at connect time does not precede the End-of-RIB of its family in the {} view",
                                                addr, k, vname
                                            ),
                                        ))
                                    }
                                }
                            }
                        }
                    }
                }
                match bad {
                    Some((c, d)) => report(
                        rep,
                        finding(
                            "route-monitoring",
                            &format!("{}/{}", c, vname),
                            "the initial dump a station gets for an established peer must be the peer's routes followed by an End-of-RIB per family",
                            d,
                            &[],
                        ),
                        ctx(vec![("peer", Json::s(addr.to_string()))]),
                        hseed,
                    ),
                    None => rep.count(&format!("e2e:snapshot-with-eor/{}", vname)),
                }
            }
        }
    }
}

/// fold one parsed UPDATE into a RIB view; records End-of-RIB positions and first appearances
#[allow(clippy::too_many_arguments)]
fn fold_update(
    u: ParsedUpdate,
    m: &mut BTreeMap<RouteKey, RouteVal>,
    track: Option<()>,
    mi: usize,
    eor_at: &mut BTreeMap<(IpAddr, u8, u32), usize>,
    first_at: &mut BTreeMap<(IpAddr, u8, RouteKey), usize>,
    addr: IpAddr,
    view: u8,
) {
    match u {
        ParsedUpdate::EndOfRib(f) => {
            if track.is_some() {
                eor_at.entry((addr, view, fam_id(f))).or_insert(mi);
            }
        }
        ParsedUpdate::Routes {
            reach,
            mp_reach,
            unreach,
            mp_unreach,
            attrs,
            ..
        } => {
            let canon = attrs_canon(&attrs);
            for r in reach.into_iter().chain(mp_reach) {
                for e in r.entries {
                    let k = (fam_id(r.family), e.nlri.to_string(), e.path_id);
                    if track.is_some() {
                        first_at.entry((addr, view, k.clone())).or_insert(mi);
                    }
                    m.insert(k, (canon.clone(), nh_str(&r.nexthop)));
                }
            }
            for w in unreach.into_iter().chain(mp_unreach) {
                for e in w.entries {
                    m.remove(&(fam_id(w.family), e.nlri.to_string(), e.path_id));
                }
            }
        }
    }
}

fn run_e2e(rng: &mut Rng, ps: &mut Parsers, prm: &E2eParams, k: u64) -> Option<Outcome> {
    let rt = tokio::runtime::Builder::new_multi_thread()
        .worker_threads(3)
        .enable_all()
        .build()
        .ok()?;
    // churn histories: delay injection at the daemon's own scheduling points (TableManager::subscribe before /
    // after the subscriber registration and between shards, peer_down, insert / remove, unregister_peer) widens
    // the windows in which a session's last events fall into a new station's snapshot phase
    let hooks = prm.churn && (rng.chance(3, 4) || std::env::var("VERIF_FORCE_HOOKS").is_ok());
    if hooks {
        crate::verif_hooks::install(rng.next_u64(), *rng.pick(&[40u32, 70, 95]));
    }
    let mut out = rt.block_on(e2e_script(rng, ps, prm, k));
    if hooks {
        let (hits, _) = crate::verif_hooks::uninstall();
        out.sched_hits = hits;
    }
    rt.shutdown_timeout(Duration::from_millis(200));
    Some(out)
}

fn e2e_counts(rep: &mut Report, out: &Outcome) {
    rep.count("e2e:histories");
    rep.count_n("e2e:sessions", out.sessions.len() as u64);
    rep.count_n("e2e:stations", out.stations.len() as u64);
    for st in &out.stations {
        rep.count(&format!("e2e:station-policy/{}", policy_name(st.policy)));
        rep.count(if st.quiescent {
            "e2e:station-connected-at-quiescence"
        } else {
            "e2e:station-connected-racing"
        });
        rep.count_n("e2e:bmp-messages-read", st.msgs.len() as u64);
    }
    for s in &out.sessions {
        let c = &out.cfgs[s.spk];
        rep.count(if c.addr.is_ipv6() {
            "e2e:session-v6-peer"
        } else {
            "e2e:session-v4-peer"
        });
        if !s.ap_in.is_empty() {
            rep.count("e2e:session-with-add-path");
        }
        if !c.as4 {
            rep.count("e2e:session-2-byte-as-speaker");
        }
        if let Some(cl) = &s.close {
            rep.count(&format!("e2e:close/{:?}", cl.kind));
        }
    }
    if out.local_asn > 65535 {
        rep.count("e2e:daemon-4-byte-as");
    }
}

// ================================================================== C18: peer-up / peer-down pairing

/// What a station concludes from the PeerUp / PeerDown messages of one stream.
fn judge_station_c18(rep: &mut Report, out: &Outcome, sti: usize, hseed: u64) {
    let st = &out.stations[sti];
    if st.broken.is_some() {
        rep.count("unjudged:station-stream-not-well-formed (C19's to report)");
        return;
    }
    let ctx = || {
        Json::obj(vec![
            (
                "station",
                Json::s(format!(
                    "#{} policy={} connected at step {} quiescent={}",
                    sti,
                    policy_name(st.policy),
                    st.connect_step,
                    st.quiescent
                )),
            ),
            (
                "speakers",
                Json::strs(out.cfgs.iter().map(|c| format!("{} AS{}", c.addr, c.asn))),
            ),
            ("script", Json::strs(out.steps.iter().cloned())),
            (
                "peer_messages",
                Json::strs(st.msgs.iter().filter_map(|(_, m)| match m {
                    StMsg::PeerUp { hdr, rport, .. } => Some(format!(
                        "PeerUp {} type {} remote-port {}",
                        hdr.addr(),
                        hdr.ptype,
                        rport
                    )),
                    StMsg::PeerDown { hdr, reason, .. } => {
                        Some(format!("PeerDown {} reason {}", hdr.addr(), reason))
                    }
                    _ => None,
                })),
            ),
            ("history_seed", Json::Int(hseed as i128)),
        ])
    };
    let mk = out.final_marker;
    let mut open: BTreeMap<IpAddr, bool> = BTreeMap::new(); // addr -> PeerUp was reconstructed from Global
    let mut marker_ok: BTreeSet<IpAddr> = BTreeSet::new();
    for (_, m) in &st.msgs {
        match m {
            StMsg::PeerUp { hdr, rport, .. } if hdr.ptype == 0 => {
                rep.eval();
                let addr = hdr.addr();
                let from_global = out.sessions.iter().any(|s| {
                    out.cfgs[s.spk].addr == addr
                        && s.my_port == *rport
                        && s.up_step < st.connect_step
                });
                if open.insert(addr, from_global).is_some() {
                    rep.count("unjudged:peer-up-repeated-without-peer-down");
                }
                rep.count(if from_global {
                    "c18:peer-up-reconstructed-from-global"
                } else {
                    "c18:peer-up-live"
                });
            }
            StMsg::PeerDown { hdr, reason, .. } => {
                rep.eval();
                let addr = hdr.addr();
                match open.remove(&addr) {
                    None => rep.violation("C18/peer-tracking/peer-down-without-peer-up", "a PeerDown reached the station for a peer that has no open PeerUp on this stream", ctx()),
                    Some(fg) => {
                        rep.count("c18:peer-down-closes-peer-up");
                        rep.count(&format!("c18:peer-down-reason-{}", reason));
                        if fg {
                            rep.count("c18:peer-down-after-reconstructed-peer-up");
                        }
                        rep.nontrivial(fnv64(format!("{}{}{}{}", hseed, sti, addr, st.msgs.len()).as_bytes()));
                    }
                }
            }
            StMsg::Route { hdr, pdu } => {
                if hdr.ptype == 0 && !open.contains_key(&hdr.addr()) {
                    rep.count("unjudged:route-monitoring-without-open-peer-up");
                }
                // the final marker of a peer that is up at the end: the peer must have an open PeerUp here
                if out.synced {
                    for &si in &out.up_at_end {
                        let s = &out.sessions[si];
                        let pat = [32u8, 10, 240 + s.spk as u8, (mk >> 8) as u8, mk as u8];
                        let addr = out.cfgs[s.spk].addr;
                        if !marker_ok.contains(&addr) && pdu.windows(5).any(|w| w == pat) {
                            rep.eval();
                            if open.contains_key(&addr) {
                                marker_ok.insert(addr);
                                rep.count("c18:up-peer-has-open-peer-up");
                            } else {
                                rep.violation("C18/peer-tracking/up-peer-without-peer-up", "routes of an established peer reach the station but no PeerUp for it is open on this stream", ctx());
                                marker_ok.insert(addr);
                            }
                        }
                    }
                }
            }
            _ => {}
        }
    }
    if out.closed_at_end {
        for (a, _) in open.iter() {
            if out.sessions.iter().any(|s| {
                out.cfgs[s.spk].addr == *a && s.close.is_some() && !out.up_at_end.is_empty()
            }) && !out
                .sessions
                .iter()
                .any(|s| out.cfgs[s.spk].addr == *a && s.close.is_none())
            {
                rep.count("unjudged:peer-down-not-seen-for-closed-session");
            }
        }
    }
    rep.count("c18:station-streams-judged");
}

/// C18's main clause at the BMP boundary: a station that applies what it reads (RouteMonitoring reach /
/// withdraw per (peer, view, prefix, path id); PeerDown clears the peer; End-of-RIB ignored) must, at the
/// final synchronisation point, hold exactly the Adj-RIB-In of every peer: what an established peer
/// announced, and nothing for a peer whose session has ended (no graceful restart is configured, so the
/// RIB holds nothing of a departed peer).  There is no handle to the daemon's TableManager here (see the
/// module comment), so "what the RIB holds" is the speakers' own record.
fn judge_station_rib_c18(rep: &mut Report, out: &Outcome, sti: usize, hseed: u64) {
    let st = &out.stations[sti];
    let want_pre = matches!(st.policy, 1 | 3 | 5);
    let want_post = matches!(st.policy, 2 | 3 | 5);
    if !want_pre && !want_post {
        return;
    }
    if st.broken.is_some() || !out.synced || out.up_at_end.is_empty() || out.problem.is_some() {
        rep.count("unjudged:station-rib-no-synchronisation-point");
        return;
    }
    let mk = out.final_marker;
    // parsers per peer: path ids are present where the session negotiated them (same for every session of a speaker)
    let mut codecs: BTreeMap<IpAddr, PeerCodec> = BTreeMap::new();
    for (i, cfg) in out.cfgs.iter().enumerate() {
        let ap: BTreeSet<u32> = out
            .sessions
            .iter()
            .find(|s| s.spk == i)
            .map(|s| s.ap_in.clone())
            .unwrap_or_default();
        let mut c = PeerCodec::new();
        c.extended_length = true;
        for (f, _) in FAMILIES {
            let on = ap.contains(&fam_id(*f));
            c.set_family(
                *f,
                FamilyState {
                    addpath_rx: on,
                    addpath_tx: on,
                },
            );
        }
        codecs.insert(cfg.addr, c);
    }
    let mut open: BTreeSet<IpAddr> = BTreeSet::new();
    let mut open_port: BTreeMap<IpAddr, u16> = BTreeMap::new();
    let mut lost_down: BTreeSet<IpAddr> = BTreeSet::new();
    let mut folds: BTreeMap<(IpAddr, u8), BTreeMap<RouteKey, RouteVal>> = BTreeMap::new();
    // keys that were announced to the station while no PeerUp of the peer was open
    let mut orphan: BTreeMap<(IpAddr, u8), BTreeSet<RouteKey>> = BTreeMap::new();
    let mut rms_of: BTreeMap<IpAddr, u64> = BTreeMap::new();
    // the order of what the station read, run-length encoded
    let mut order: Vec<(String, u64)> = Vec::new();
    let mut log = |order: &mut Vec<(String, u64)>, e: String| match order.last_mut() {
        Some((l, n)) if *l == e => *n += 1,
        _ => order.push((e, 1)),
    };
    let mut reached = false;
    for (_, m) in &st.msgs {
        match m {
            StMsg::PeerUp { hdr, rport, .. } if hdr.ptype == 0 => {
                // a PeerUp of another session (other source port) of a peer whose PeerUp is still open:
                // the PeerDown of the earlier session was never delivered to this station
                if open.contains(&hdr.addr())
                    && open_port.get(&hdr.addr()).is_some_and(|p| p != rport)
                {
                    lost_down.insert(hdr.addr());
                }
                open_port.insert(hdr.addr(), *rport);
                open.insert(hdr.addr());
                log(
                    &mut order,
                    format!("PeerUp {} (remote port {})", hdr.addr(), rport),
                );
            }
            StMsg::PeerDown { hdr, reason, .. } => {
                let a = hdr.addr();
                open.remove(&a);
                folds.retain(|k, _| k.0 != a);
                orphan.retain(|k, _| k.0 != a);
                log(&mut order, format!("PeerDown {} reason {}", a, reason));
            }
            StMsg::Route { hdr, pdu } if hdr.ptype == 0 && hdr.flags & 0x10 == 0 => {
                let a = hdr.addr();
                let view = hdr.flags & 0x40;
                let Some(codec) = codecs.get_mut(&a) else {
                    continue;
                };
                let Ok(Ok(ParsedMessage::Update(u))) = guard(|| codec.parse_message(pdu)) else {
                    rep.count("unjudged:station-rib-unparsable-update (C19's to report)");
                    continue;
                };
                *rms_of.entry(a).or_insert(0) += 1;
                let has_up = open.contains(&a);
                match u {
                    ParsedUpdate::EndOfRib(_) => {}
                    ParsedUpdate::Routes {
                        reach,
                        mp_reach,
                        unreach,
                        mp_unreach,
                        attrs,
                        ..
                    } => {
                        let canon = attrs_canon(&attrs);
                        let fold = folds.entry((a, view)).or_default();
                        let mut what = "withdraw";
                        for r in reach.into_iter().chain(mp_reach) {
                            what = "reach";
                            for e in r.entries {
                                let k = (fam_id(r.family), e.nlri.to_string(), e.path_id);
                                if !has_up {
                                    orphan.entry((a, view)).or_default().insert(k.clone());
                                }
                                fold.insert(k, (canon.clone(), nh_str(&r.nexthop)));
                            }
                        }
                        for w in unreach.into_iter().chain(mp_unreach) {
                            for e in w.entries {
                                fold.remove(&(fam_id(w.family), e.nlri.to_string(), e.path_id));
                            }
                        }
                        log(
                            &mut order,
                            format!(
                                "RouteMonitoring {} {}{}",
                                a,
                                what,
                                if has_up {
                                    ""
                                } else {
                                    " [no PeerUp open for this peer]"
                                }
                            ),
                        );
                    }
                }
                // the synchronisation point: the last marker of every session that is up, in every subscribed view
                reached = out.up_at_end.iter().all(|&si| {
                    let s = &out.sessions[si];
                    let pa = out.cfgs[s.spk].addr;
                    let k: RouteKey = (
                        fam_id(Family::IPV4),
                        format!("10.{}.{}.{}/32", 240 + s.spk, (mk >> 8) & 255, mk & 255),
                        if s.ap_in.contains(&fam_id(Family::IPV4)) {
                            7
                        } else {
                            0
                        },
                    );
                    (!want_pre || folds.get(&(pa, 0)).is_some_and(|m| m.contains_key(&k)))
                        && (!want_post
                            || folds.get(&(pa, 0x40)).is_some_and(|m| m.contains_key(&k)))
                });
                if reached {
                    break;
                }
            }
            _ => {}
        }
    }
    if !reached {
        rep.count("unjudged:station-rib-no-synchronisation-point");
        return;
    }
    let empty: BTreeMap<RouteKey, RouteVal> = BTreeMap::new();
    for (i, cfg) in out.cfgs.iter().enumerate() {
        let up_sess = out.up_at_end.iter().find(|&&si| out.sessions[si].spk == i);
        let sessions: Vec<&Session> = out.sessions.iter().filter(|s| s.spk == i).collect();
        let (expected, departed) = match up_sess {
            Some(&si) => (&out.sessions[si].model, false),
            None => {
                if sessions.iter().any(|s| !s.close_observed) {
                    rep.count("unjudged:station-rib-end-of-session-not-observed");
                    continue;
                }
                (&empty, true)
            }
        };
        for (want, view, vname) in [(want_pre, 0u8, "pre"), (want_post, 0x40u8, "post")] {
            if !want {
                continue;
            }
            rep.eval();
            let got = folds.get(&(cfg.addr, view)).unwrap_or(&empty);
            if got == expected {
                rep.count(if departed {
                    "c18:station-rib-departed-peer-empty"
                } else {
                    "c18:station-rib-established-peer-equal"
                });
                if departed && rms_of.get(&cfg.addr).copied().unwrap_or(0) > 0 {
                    rep.count("c18:station-rib-departed-peer-had-routes");
                    rep.nontrivial(fnv64(
                        format!("rib{}{}{}{}", hseed, sti, cfg.addr, view).as_bytes(),
                    ));
                }
                continue;
            }
            let leftover: Vec<&RouteKey> =
                got.keys().filter(|k| !expected.contains_key(*k)).collect();
            let missing: Vec<&RouteKey> = expected
                .iter()
                .filter(|(k, v)| got.get(*k) != Some(*v))
                .map(|(k, _)| k)
                .collect();
            // what the sessions of this speaker that have ended had announced
            let ended_keys: BTreeSet<&RouteKey> = sessions
                .iter()
                .filter(|x| x.close.is_some())
                .flat_map(|x| x.model.keys())
                .collect();
            let _ = &lost_down;
            let orph = orphan.get(&(cfg.addr, view));
            let all_orphan = !leftover.is_empty()
                && leftover
                    .iter()
                    .all(|k| orph.is_some_and(|o| o.contains(*k)));
            let sig = if missing.is_empty() && all_orphan {
                "C18/bmp-station/routes-of-departed-peer"
            } else if missing.is_empty()
                && !leftover.is_empty()
                && leftover.iter().all(|k| ended_keys.contains(*k))
            {
                "C18/bmp-station/peer-down-never-delivered"
            } else {
                "C18/bmp-station/adj-rib-in-differs"
            };
            let what = if sig.ends_with("never-delivered") {
                "a session ended while a BMP station was in its snapshot phase: the station is sent routes of that session under a PeerUp (of that session, still in Global, or of the peer's next session) but never the PeerDown that would clear them, so it keeps routes the RIB no longer holds"
            } else if sig.ends_with("departed-peer") {
                "a BMP station was sent RouteMonitoring of a session that had ended without ever being sent its PeerUp; the PeerDown is then suppressed, so the station keeps routes the RIB no longer holds (last event delivered is not the current state)"
            } else {
                "the Adj-RIB-In a BMP station ends with (snapshot + live RouteMonitoring, PeerDown clears the peer) is not the one the RIB holds"
            };
            rep.violation(
                sig,
                what,
                Json::obj(vec![
                    (
                        "station",
                        Json::s(format!(
                            "#{} policy={} connected at step {} quiescent={}",
                            sti,
                            policy_name(st.policy),
                            st.connect_step,
                            st.quiescent
                        )),
                    ),
                    (
                        "peer",
                        Json::s(format!(
                            "{} AS{} ({})",
                            cfg.addr,
                            cfg.asn,
                            if departed {
                                "no session at the end"
                            } else {
                                "established at the end"
                            }
                        )),
                    ),
                    ("view", Json::s(vname)),
                    ("rib_holds", Json::Int(expected.len() as i128)),
                    ("station_holds", Json::Int(got.len() as i128)),
                    (
                        "station_only",
                        Json::strs(leftover.iter().take(5).map(|k| format!("{:?}", k))),
                    ),
                    (
                        "rib_only_or_differing",
                        Json::strs(missing.iter().take(5).map(|k| format!("{:?}", k))),
                    ),
                    (
                        "read_by_station_in_order (pre and post views together)",
                        Json::strs(order.iter().take(80).map(|(e, n)| {
                            if *n > 1 {
                                format!("{} x{}", e, n)
                            } else {
                                e.clone()
                            }
                        })),
                    ),
                    ("script", Json::strs(out.steps.iter().cloned())),
                    ("history_seed", Json::Int(hseed as i128)),
                ]),
            );
        }
    }
}

/// `send_peer_up` / `send_peer_down` (hence `track_peer_up/down`) driven directly
/// with arbitrary event orders over a loopback `Framed`, as the serve loop does
/// for BgpEvent::PeerUp / PeerDown.  Many cases share one TCP connection (each
/// starts with a fresh tracking set and an Initiation message as delimiter).
type DirectCase = (Vec<String>, Vec<String>, Vec<String>);

async fn c18_direct_batch(
    rng: &mut Rng,
    ps: &mut Parsers,
    ncases: usize,
) -> Result<Vec<DirectCase>, String> {
    let l = block_listener().await?;
    let port = l.local_addr().map_err(|e| e.to_string())?.port();
    let (c, a) = tokio::join!(
        connect_retry(SocketAddr::new(IpAddr::V4(Ipv4Addr::LOCALHOST), port)),
        l.accept()
    );
    let stream = c.map_err(|e| format!("connect: {}", e))?;
    // the writing end closes with FIN after the last message (an RST could overtake data still in
    // flight); the reading end closes with RST once it has seen the end of the stream
    let _ = stream.set_linger(None);
    let (mut station, _) = a.map_err(|e| format!("accept: {}", e))?;
    no_time_wait(&station);
    // the station reads while the cases are written
    let reader = tokio::spawn(async move {
        let mut bytes = Vec::new();
        let _ =
            tokio::time::timeout(Duration::from_secs(30), station.read_to_end(&mut bytes)).await;
        bytes
    });
    let mut lines = Framed::new(stream, bmp::BmpCodec::new());
    let open = |asn: u32| {
        bgp::Message::Open(Open {
            as_number: asn,
            holdtime: HoldTime::new(90).unwrap(),
            router_id: asn,
            capability: vec![Capability::FourOctetAsNumber(asn)],
        })
    };
    let mut cases: Vec<(Vec<String>, Vec<String>)> = Vec::new();
    for _ in 0..ncases {
        if lines
            .send(&bmp::Message::Initiation(vec![(0, b"case".to_vec())]))
            .await
            .is_err()
        {
            return Err("delimiter could not be sent".into());
        }
        let mut sent: FnvHashSet<IpAddr> = FnvHashSet::default();
        let npeers = rng.range(1, 5) as usize;
        let peers: Vec<IpAddr> = (0..npeers)
            .map(|i| {
                if rng.chance(1, 3) {
                    IpAddr::V6(Ipv6Addr::new(0x2001, 0xdb8, 0, 0, 0, 0, 0, 1 + i as u16))
                } else {
                    IpAddr::V4(Ipv4Addr::new(192, 0, 2, 1 + i as u8))
                }
            })
            .collect();
        let n = rng.range(3, 40) as usize;
        let mut events = Vec::new();
        let mut model_open: BTreeSet<IpAddr> = BTreeSet::new();
        let mut expect: Vec<String> = Vec::new();
        for _ in 0..n {
            let p = *rng.pick(&peers);
            let asn = 64512 + rng.below(100) as u32;
            let hdr = bmp::PerPeerHeader::new(0, asn, Ipv4Addr::from(asn), 0, p, 1);
            if rng.chance(9, 20) {
                events.push(format!("up {}", p));
                let m = bmp::Message::PeerUp {
                    header: hdr,
                    local_addr: if p.is_ipv6() {
                        IpAddr::V6(Ipv6Addr::LOCALHOST)
                    } else {
                        IpAddr::V4(Ipv4Addr::LOCALHOST)
                    },
                    local_port: 179,
                    remote_port: 40000,
                    local_open: open(65000),
                    remote_open: open(asn),
                };
                if !send_peer_up(&mut sent, &mut lines, p, &m).await {
                    return Err("send_peer_up reported a broken connection".into());
                }
                model_open.insert(p);
                expect.push(format!("up {}", p));
            } else {
                events.push(format!("down {}", p));
                let reason = match rng.below(3) {
                    0 => bmp::PeerDownReason::RemoteUnexpected,
                    1 => bmp::PeerDownReason::LocalFsm(0),
                    _ => bmp::PeerDownReason::RemoteNotification(bgp::Message::Notification(
                        gen_notification(rng),
                    )),
                };
                let m = bmp::Message::PeerDown {
                    header: hdr,
                    reason,
                };
                if !send_peer_down(&mut sent, &mut lines, p, &m).await {
                    return Err("send_peer_down reported a broken connection".into());
                }
                // the statement: reported only for peers whose peer-up was reported (and not yet closed)
                if model_open.remove(&p) {
                    expect.push(format!("down {}", p));
                }
            }
        }
        cases.push((events, expect));
    }
    if lines
        .send(&bmp::Message::Initiation(vec![(0, b"end".to_vec())]))
        .await
        .is_err()
    {
        return Err("end marker could not be sent".into());
    }
    drop(lines);
    let bytes = reader.await.map_err(|e| e.to_string())?;
    let recs = read_bmp(&bytes).map_err(|(c, d)| format!("stream not well-formed: {} {}", c, d))?;
    let mut got: Vec<Vec<String>> = Vec::new();
    for r in recs {
        match read_bmp_msg(ps, r.typ, r.body) {
            Ok(StMsg::Initiation) => got.push(Vec::new()),
            Ok(StMsg::PeerUp { hdr, .. }) => got
                .last_mut()
                .ok_or("no delimiter")?
                .push(format!("up {}", hdr.addr())),
            Ok(StMsg::PeerDown { hdr, .. }) => got
                .last_mut()
                .ok_or("no delimiter")?
                .push(format!("down {}", hdr.addr())),
            Ok(_) => got.last_mut().ok_or("no delimiter")?.push("other".into()),
            Err((k, c, d)) => return Err(format!("message not well-formed: {} {} {}", k, c, d)),
        }
    }
    // the end marker proves that nothing was lost at the end of the stream
    if got.len() != cases.len() + 1 || !got.last().is_some_and(|g| g.is_empty()) {
        return Err(format!(
            "{} delimiters read for {} cases + end marker",
            got.len(),
            cases.len()
        ));
    }
    got.pop();
    Ok(cases
        .into_iter()
        .zip(got)
        .map(|((e, x), g)| (e, x, g))
        .collect())
}

#[test]
fn c18_peer_tracking() {
    let params = Params::from_args_env();
    let mut rep = Report::new("C18", &params);
    rep.extra("rule_peer_tracking", Json::s("case = one PeerUp / PeerDown message read from a station socket (direct: send_peer_up / send_peer_down over a loopback Framed with arbitrary event orders; e2e: the daemon's serve loop with real sessions going up and down and stations subscribing at random points); non-trivial = a PeerDown that closed a PeerUp, distinct by history"));
    let mut ps = Parsers::new();
    let mut rng = Rng::new(params.seed ^ 0xC18_B000);

    // ---- track_peer_up / track_peer_down against the statement, any call order
    for _ in 0..params.n(300, 5000) {
        let mut set: FnvHashSet<IpAddr> = FnvHashSet::default();
        let mut model: BTreeSet<IpAddr> = BTreeSet::new();
        let mut log = Vec::new();
        for _ in 0..rng.range(2, 30) {
            let a = IpAddr::V4(Ipv4Addr::new(192, 0, 2, 1 + rng.below(3) as u8));
            rep.eval();
            if rng.bool() {
                track_peer_up(&mut set, a);
                model.insert(a);
                log.push(format!("up {}", a));
            } else {
                let fwd = track_peer_down(&mut set, a);
                let want = model.remove(&a);
                log.push(format!("down {} -> forward={}", a, fwd));
                if fwd != want {
                    rep.violation("C18/peer-tracking/track-peer-down-decision", "track_peer_down forwards a PeerDown although no PeerUp is open for the peer (or suppresses one that is)", Json::obj(vec![("calls", Json::strs(log.clone())), ("expected_forward", Json::Bool(want))]));
                } else if fwd {
                    rep.count("c18:track-forwarded");
                } else {
                    rep.count("c18:track-suppressed");
                }
            }
        }
    }

    // ---- send_peer_up / send_peer_down over a real Framed<TcpStream, BmpCodec>
    match tokio::runtime::Builder::new_current_thread()
        .enable_all()
        .build()
    {
        Err(_) => rep.inconclusive("cannot build a tokio runtime"),
        Ok(rt) => {
            let total = params.n(1500, 30000) as usize;
            let mut done = 0usize;
            let mut first = true;
            while done < total {
                if rep.elapsed() > rep.params.budget_s * 0.3 {
                    break;
                }
                let cseed = rng.next_u64();
                let batch = 100.min(total - done);
                done += batch;
                match rt.block_on(c18_direct_batch(&mut Rng::new(cseed), &mut ps, batch)) {
                    Err(e) => {
                        rep.count("unjudged:direct-batch-harness-problem");
                        if first {
                            rep.inconclusive(&format!("direct cases: {}", e));
                        }
                    }
                    Ok(cases) => {
                        for (events, expect, got) in cases {
                            rep.evals(got.len() as u64);
                            rep.count("c18:direct-cases");
                            let suppressed =
                                events.iter().filter(|e| e.starts_with("down")).count()
                                    - expect.iter().filter(|e| e.starts_with("down")).count();
                            rep.count_n(
                                "c18:direct-peer-down-events-for-peers-without-open-peer-up",
                                suppressed as u64,
                            );
                            rep.count_n(
                                "c18:direct-peer-down-forwarded",
                                expect.iter().filter(|e| e.starts_with("down")).count() as u64,
                            );
                            if got == expect {
                                if suppressed > 0 {
                                    rep.nontrivial(fnv64(events.join(",").as_bytes()));
                                }
                            } else {
                                // which clause?
                                let mut open: BTreeSet<&str> = BTreeSet::new();
                                let mut sig = "C18/peer-tracking/wire-differs-from-events";
                                for g in &got {
                                    if let Some(a) = g.strip_prefix("up ") {
                                        open.insert(a);
                                    } else if let Some(a) = g.strip_prefix("down ") {
                                        if !open.remove(a) {
                                            sig = "C18/peer-tracking/peer-down-without-peer-up";
                                            break;
                                        }
                                    }
                                }
                                rep.violation(sig, "the PeerUp / PeerDown messages on the wire are not the ones the event sequence allows (PeerDown only for a peer whose PeerUp is open)", Json::obj(vec![("events", Json::strs(events)), ("expected_on_wire", Json::strs(expect)), ("on_wire", Json::strs(got)), ("batch_seed", Json::Int(cseed as i128))]));
                            }
                        }
                    }
                }
                first = false;
            }
        }
    }

    // ---- the serve loop itself: real sessions going up and down, stations subscribing at random points
    let n = params.n(60, 1000);
    let mut problems = 0u64;
    for k in 0..n {
        if !rep.in_budget() {
            break;
        }
        let mut hseed = rng.next_u64();
        // replay of one history by its seed (hseed=<history_seed of a witness>), repeated
        if let Some(h) = params.get("hseed").and_then(|h| h.parse::<u64>().ok()) {
            hseed = h;
        }
        let Some(out) = run_e2e(
            &mut Rng::new(hseed),
            &mut ps,
            &E2eParams { churn: true },
            1000 + k,
        ) else {
            rep.inconclusive("cannot build a tokio runtime");
            break;
        };
        if let Some(p) = &out.problem {
            problems += 1;
            rep.count(&format!(
                "e2e-problem:{}",
                p.split(':').next().unwrap_or("")
            ));
            eprintln!("[C18 e2e {}] {}", hseed, p);
        }
        rep.count("c18:e2e-histories");
        if out.sched_hits > 0 {
            rep.count("c18:e2e-histories-with-delay-injection");
            rep.count_n("c18:e2e-sched-point-hits", out.sched_hits);
        }
        rep.count_n("c18:e2e-sessions", out.sessions.len() as u64);
        for i in 0..out.stations.len() {
            judge_station_c18(&mut rep, &out, i, hseed);
            judge_station_rib_c18(&mut rep, &out, i, hseed);
        }
        if rep.want_sample() {
            rep.sample(Json::obj(vec![
                ("kind", Json::s("e2e")),
                ("history_seed", Json::Int(hseed as i128)),
                ("script", Json::strs(out.steps.iter().cloned())),
            ]));
        }
    }
    if problems * 2 > n.max(1) {
        rep.inconclusive("more than half of the e2e histories hit a watchdog / harness problem");
    }
    let _ = rep.finish();
}

#[test]
fn run() {
    let params = Params::from_args_env();
    let mut rep = Report::new("C19", &params);
    let mut ps = Parsers::new();
    let mut rng = Rng::new(params.seed ^ 0xC19_B000);
    let part = params.get("part").unwrap_or("all").to_string();
    if params.flag("daemonlog") {
        let _ = env_logger::Builder::from_env(env_logger::Env::default().default_filter_or("info"))
            .try_init();
    }
    if part == "all" || part == "conv" {
        let n = params.n(60, 3000);
        for _ in 0..n {
            if rep.elapsed() > rep.params.budget_s * if part == "all" { 0.4 } else { 1.0 } {
                break;
            }
            let hseed = rng.next_u64();
            conv_history(&mut rep, &mut ps, &mut Rng::new(hseed), hseed);
        }
    }
    if part == "all" || part == "e2e" {
        let n = params.n(30, 800);
        let mut problems = 0u64;
        for k in 0..n {
            if !rep.in_budget() {
                break;
            }
            let mut hseed = rng.next_u64();
            if params
                .get("only")
                .is_some_and(|o| o.parse::<u64>().ok() != Some(k))
            {
                continue;
            }
            // replay of one history by its seed (hseed=<history_seed of a witness>); repeated `n` times,
            // the interleaving differs from run to run
            if let Some(h) = params.get("hseed").and_then(|h| h.parse::<u64>().ok()) {
                hseed = h;
            }
            let Some(out) = run_e2e(
                &mut Rng::new(hseed),
                &mut ps,
                &E2eParams { churn: false },
                k,
            ) else {
                rep.inconclusive("cannot build a tokio runtime");
                break;
            };
            if let Some(p) = &out.problem {
                problems += 1;
                rep.count(&format!(
                    "e2e-problem:{}",
                    p.split(':').next().unwrap_or("")
                ));
                eprintln!("[C19 e2e {}] {}", hseed, p);
            }
            e2e_counts(&mut rep, &out);
            if params.flag("trace") {
                eprintln!("[e2e {}] t={:.2}s steps={:?}", k, rep.elapsed(), out.steps);
                for s in &out.sessions {
                    eprintln!(
                        "[e2e {}]   session spk {} port {} up_step {} down_step {:?} close {:?} observed {}",
                        k,
                        s.spk,
                        s.my_port,
                        s.up_step,
                        s.down_step,
                        s.close.as_ref().map(|c| c.kind),
                        s.close_observed
                    );
                }
                for (xi, x) in out.stations.iter().enumerate() {
                    eprintln!(
                        "[e2e {}]   station {} policy {} connect_step {}: {:?}",
                        k,
                        xi,
                        policy_name(x.policy),
                        x.connect_step,
                        x.msgs
                            .iter()
                            .enumerate()
                            .filter_map(|(i, (_, m))| match m {
                                StMsg::PeerUp { hdr, rport, .. } => Some(format!(
                                    "#{} up {} t{} rport {}",
                                    i,
                                    hdr.addr(),
                                    hdr.ptype,
                                    rport
                                )),
                                StMsg::PeerDown { hdr, reason, .. } =>
                                    Some(format!("#{} down {} r{}", i, hdr.addr(), reason)),
                                _ => None,
                            })
                            .collect::<Vec<_>>()
                    );
                }
            }
            for i in 0..out.stations.len() {
                judge_station_c19(&mut rep, &mut ps, &out, i, hseed);
            }
            if rep.want_sample() && k % 5 == 1 {
                rep.sample(Json::obj(vec![
                    ("kind", Json::s("e2e")),
                    ("history_seed", Json::Int(hseed as i128)),
                    ("script", Json::strs(out.steps.iter().cloned())),
                    (
                        "stations",
                        Json::strs(out.stations.iter().map(|s| {
                            format!("policy={} messages={}", policy_name(s.policy), s.msgs.len())
                        })),
                    ),
                ]));
            }
        }
        if problems * 2 > n.max(1) {
            rep.inconclusive(
                "more than half of the e2e histories hit a watchdog / harness problem",
            );
        }
    }
    let _ = rep.finish();
}
