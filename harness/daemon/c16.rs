//! C16 — only configured or dynamically permitted neighbours get a session, set up right.
//!
//! Generated configurations (neighbours, peer groups with dynamic-neighbour
//! prefixes of any length incl. overlapping and host-bit-dirty ones, admin-down,
//! passive, confederation, RR / RS client, per-family add-path send-max, GR /
//! LLGR, prefix limits, hold time, export policy) are loaded through the real
//! paths (gRPC handlers `start_bgp` / `add_peer_group` / `add_dynamic_neighbor`
//! / `add_peer`, or config text -> `BgpConfig::validate` -> `Global::apply_config`
//! + the neighbour / dynamic-neighbour loading of `Global::serve`).  Then REAL
//! loopback TCP connections from chosen source addresses 127.x.y.z / ::1 are
//! handed to the real `accept_connection` in both roles, in sequences of
//! connect / disconnect / enable / disable / delete / re-add; accepted sessions
//! run the real `PeerSession::run` in a task, exactly as `Global::serve` does.
//!
//! Oracle (from the statement): admission predicate with own prefix arithmetic;
//! refused => `None` and zero bytes before EOF; the session's role, local AS,
//! expected AS, OPEN (hold time, capabilities), prefix limits, export policy
//! equal the neighbour's / peer group's configuration; a dynamic neighbour's
//! entry is gone once its last connection's task has finished, a configured
//! one stays.  Second part: GR / LLGR negotiation and the FSM's send-max are
//! mirror images / agree with `PeerCodec::negotiate`.
use super::super::*;
use super::common::*;
use crate::api::go_bgp_service_server::GoBgpService as _;
use bytes::BytesMut;
use futures::FutureExt as _;
use std::collections::{BTreeMap, BTreeSet};
use std::net::{IpAddr, Ipv4Addr, Ipv6Addr, SocketAddr};
use tokio::net::{TcpListener, TcpSocket, TcpStream};

type Role = crate::fsm::Role;

const GLOBAL_AS: u32 = 65001;
const CONFED_ID: u32 = 64512;
const WATCHDOG: Duration = Duration::from_secs(20);

fn router_id() -> Ipv4Addr {
    Ipv4Addr::new(1, 0, 0, 1)
}

fn fid(f: Family) -> u32 {
    ((f.afi() as u32) << 16) | f.safi() as u32
}

fn fam_table() -> Vec<(Family, &'static str)> {
    vec![
        (Family::IPV4, "ipv4-unicast"),
        (Family::IPV6, "ipv6-unicast"),
        (Family::IPV4_MC, "ipv4-multicast"),
        (Family::IPV6_MC, "ipv6-multicast"),
        (Family::IPV4_MPLS, "ipv4-labelled-unicast"),
        (Family::IPV4_VPN, "l3vpn-ipv4-unicast"),
        (Family::IPV6_VPN, "l3vpn-ipv6-unicast"),
        (Family::L2VPN_EVPN, "l2vpn-evpn"),
        (Family::IPV4_FLOWSPEC, "ipv4-flowspec"),
        (Family::IPV6_FLOWSPEC, "ipv6-flowspec"),
        (Family::LS, "ls"),
        (Family::IPV4_MUP, "ipv4-mup"),
    ]
}

// ------------------------------------------------------------------ panic capture (sessions run in tasks)

static LAST_PANIC: std::sync::Mutex<Option<(String, String)>> = std::sync::Mutex::new(None);

fn install_panic_hook() {
    static ONCE: std::sync::Once = std::sync::Once::new();
    ONCE.call_once(|| {
        std::panic::set_hook(Box::new(|info| {
            let loc = info
                .location()
                .map(|l| format!("{}:{}", l.file(), l.line()))
                .unwrap_or_else(|| "?".into());
            let msg = if let Some(s) = info.payload().downcast_ref::<&str>() {
                s.to_string()
            } else if let Some(s) = info.payload().downcast_ref::<String>() {
                s.clone()
            } else {
                "<non-string panic>".into()
            };
            eprintln!("[C16] panic at {}: {}", loc, msg);
            *LAST_PANIC.lock().unwrap_or_else(|e| e.into_inner()) = Some((strip_repo(&loc), msg));
        }));
    });
}

fn take_panic() -> (String, String) {
    LAST_PANIC
        .lock()
        .unwrap_or_else(|e| e.into_inner())
        .take()
        .unwrap_or_else(|| ("?".into(), "?".into()))
}

// ------------------------------------------------------------------ generated configuration

#[derive(Clone, Debug, PartialEq)]
struct FamGen {
    fam: Family,
    name: &'static str,
    rx: bool,
    send_max: u32,
    gr: bool,
    llgr: Option<u32>,
    limit: Option<u32>,
}

#[derive(Clone, Debug, Default, PartialEq)]
struct Common {
    peer_as: u32,
    local_as: u32,
    hold: Option<u32>,
    passive: bool,
    rs_client: bool,
    rr_client: bool,
    cluster_id: Option<Ipv4Addr>,
    fams: Vec<FamGen>,
    /// graceful restart enabled: (restart time, notification enabled)
    gr: Option<(u16, bool)>,
}

#[derive(Clone, Debug, PartialEq)]
struct NeighGen {
    addr: IpAddr,
    c: Common,
    group: Option<String>,
    admin_down: bool,
    /// export policy: (default action is reject, policy names)
    export: Option<(bool, Vec<String>)>,
}

#[derive(Clone, Debug, PartialEq)]
struct PrefixGen {
    text: String,
    v6: bool,
    bits: u128,
    len: u8,
}

#[derive(Clone, Debug)]
struct GroupGen {
    name: String,
    c: Common,
    prefixes: Vec<PrefixGen>,
}

#[derive(Clone, Copy, Debug, PartialEq)]
enum Loader {
    Grpc,
    Toml,
}

#[derive(Clone, Debug)]
struct CfgGen {
    loader: Loader,
    confed: Option<Vec<u32>>,
    groups: Vec<GroupGen>,
    neighs: Vec<NeighGen>,
    universe: Vec<IpAddr>,
}

const POLICIES: [&str; 3] = ["pol-a", "pol-b", "pol-c"];

fn width(v6: bool) -> u32 {
    if v6 { 128 } else { 32 }
}

fn addr_bits(a: &IpAddr) -> (bool, u128) {
    match a {
        IpAddr::V4(x) => (false, u32::from(*x) as u128),
        IpAddr::V6(x) => (true, u128::from(*x)),
    }
}

fn bits_addr(v6: bool, b: u128) -> IpAddr {
    if v6 {
        IpAddr::V6(Ipv6Addr::from(b))
    } else {
        IpAddr::V4(Ipv4Addr::from(b as u32))
    }
}

fn top_bits(b: u128, w: u32, len: u32) -> u128 {
    if len == 0 { 0 } else { b >> (w - len) }
}

/// The reference containment: the first `len` bits of the address equal the
/// first `len` bits of the configured prefix (whatever its host bits are).
fn ref_contains(p: &PrefixGen, a: &IpAddr) -> bool {
    let (v6, b) = addr_bits(a);
    if v6 != p.v6 {
        return false;
    }
    let w = width(v6);
    top_bits(b, w, p.len as u32) == top_bits(p.bits, w, p.len as u32)
}

fn prefix_of(v6: bool, bits: u128, len: u8) -> PrefixGen {
    PrefixGen {
        text: format!("{}/{}", bits_addr(v6, bits), len),
        v6,
        bits,
        len,
    }
}

fn prefix_class(p: &PrefixGen) -> String {
    let w = width(p.v6);
    let host_mask: u128 = if p.len as u32 >= w {
        0
    } else if p.len == 0 {
        if p.v6 { u128::MAX } else { u32::MAX as u128 }
    } else {
        (1u128 << (w - p.len as u32)) - 1
    };
    let dirty = p.bits & host_mask != 0;
    let shape = if p.len == 0 {
        "len0"
    } else if p.len as u32 == w {
        "host"
    } else if p.len % 8 == 0 {
        "byte-aligned"
    } else {
        "unaligned"
    };
    // dirty bits inside the partially covered byte are what a byte-wise compare can trip on
    let dirty_in_partial_byte = if p.len % 8 != 0 && (p.len as u32) < w {
        let byte_idx = (p.len / 8) as u32;
        let byte = ((p.bits >> (w - 8 * (byte_idx + 1))) & 0xff) as u8;
        byte & (0xffu8 >> (p.len % 8)) != 0
    } else {
        false
    };
    format!(
        "{}/{}",
        shape,
        if dirty_in_partial_byte {
            "dirty-partial-byte"
        } else if dirty {
            "dirty-host-bits"
        } else {
            "clean"
        }
    )
}

fn gen_fams(rng: &mut Rng, v6_peer: bool, with_limits: bool) -> Vec<FamGen> {
    let table = fam_table();
    let n = rng.range(1, 4) as usize;
    let mut idx: Vec<usize> = (0..table.len()).collect();
    rng.shuffle(&mut idx);
    let mut picked: Vec<usize> = idx[..n].to_vec();
    // the unicast family of the transport is usually there
    if rng.chance(3, 4) {
        let want = if v6_peer { 1 } else { 0 };
        if !picked.contains(&want) {
            picked[0] = want;
        }
    }
    picked
        .into_iter()
        .map(|i| {
            let (fam, name) = table[i];
            let addpath = rng.chance(2, 5);
            FamGen {
                fam,
                name,
                rx: addpath && rng.chance(2, 3),
                send_max: if addpath && rng.chance(2, 3) {
                    *rng.pick(&[1u32, 2, 8, 255])
                } else {
                    0
                },
                gr: false,
                llgr: if rng.chance(1, 4) {
                    Some(*rng.pick(&[1u32, 600, 86400, 0xff_ffff]))
                } else {
                    None
                },
                limit: if with_limits
                    && (fam == Family::IPV4 || fam == Family::IPV6)
                    && rng.chance(1, 2)
                {
                    Some(*rng.pick(&[1u32, 10, 1000, 4_000_000_000]))
                } else {
                    None
                },
            }
        })
        .collect()
}

fn gen_common(
    rng: &mut Rng,
    for_group: bool,
    v6_peer: bool,
    confed: bool,
    in_group: bool,
) -> Common {
    let peer_as = if for_group {
        *rng.pick(&[65002u32, 65002, 65001, 65003, 65100, 4_200_000_001, 0])
    } else if in_group && rng.chance(1, 2) {
        0
    } else {
        *rng.pick(&[65002u32, 65001, 65001, 65003, 65100, 4_200_000_001])
    };
    let fams = if rng.chance(if for_group { 3 } else { 1 }, if for_group { 4 } else { 2 }) {
        gen_fams(rng, v6_peer, !for_group)
    } else {
        vec![]
    };
    let mut c = Common {
        peer_as,
        // no per-neighbour local-as inside a confederation (the statement does not say which wins)
        local_as: if !confed && rng.chance(1, 6) {
            65050
        } else {
            0
        },
        hold: if rng.chance(1, 2) {
            Some(*rng.pick(&[3u32, 30, 90, 240, 3600, 65535]))
        } else {
            None
        },
        passive: rng.chance(1, 3),
        rs_client: rng.chance(1, 6),
        rr_client: rng.chance(1, 3),
        cluster_id: None,
        fams,
        gr: None,
    };
    if c.rr_client && rng.chance(1, 2) {
        c.cluster_id = Some(Ipv4Addr::new(9, 9, 9, rng.range(1, 9) as u8));
    }
    if !c.fams.is_empty() && rng.chance(2, 5) {
        c.gr = Some((*rng.pick(&[1u16, 90, 120, 4095]), rng.bool()));
        let n = c.fams.len();
        let k = rng.usize(n);
        c.fams[k].gr = true;
        for f in c.fams.iter_mut() {
            if rng.chance(1, 3) {
                f.gr = true;
            }
        }
    }
    c
}

fn gen_cfg(rng: &mut Rng) -> CfgGen {
    let loader = if rng.bool() {
        Loader::Grpc
    } else {
        Loader::Toml
    };
    let confed = if rng.chance(1, 4) {
        Some(match rng.below(3) {
            0 => vec![65003],
            1 => vec![65001, 65003],
            _ => vec![65003, 65004],
        })
    } else {
        None
    };
    // the address universe
    let mut universe: Vec<IpAddr> = Vec::new();
    let n4 = rng.range(5, 8);
    for _ in 0..n4 {
        let a = match rng.below(6) {
            0 => Ipv4Addr::new(127, 0, 0, rng.range(1, 5) as u8),
            1 => Ipv4Addr::new(127, rng.range(0, 3) as u8 * 64, 0, rng.range(1, 250) as u8),
            _ => Ipv4Addr::new(
                127,
                rng.below(256) as u8,
                rng.below(256) as u8,
                rng.range(1, 254) as u8,
            ),
        };
        if !universe.contains(&IpAddr::V4(a)) {
            universe.push(IpAddr::V4(a));
        }
    }
    let with_v6 = rng.chance(1, 3);
    if with_v6 {
        universe.push(IpAddr::V6(Ipv6Addr::LOCALHOST));
    }
    // groups
    let ng = rng.range(0, 3) as usize;
    let mut groups: Vec<GroupGen> = Vec::new();
    for gi in 0..ng {
        let c = gen_common(rng, true, false, confed.is_some(), false);
        let mut prefixes: Vec<PrefixGen> = Vec::new();
        let np = rng.range(0, 3);
        for _ in 0..np {
            let base = *rng.pick(&universe);
            let (v6, bits) = addr_bits(&base);
            let w = width(v6);
            let p = if v6 {
                let cand: [(u128, u8); 10] = [
                    (1, 128),
                    (0, 0),
                    (1, 127),
                    (0, 127),
                    (1, 64),
                    (0, 1),
                    (1u128 << 127, 1),
                    (2, 127),
                    (0x2001_0db8u128 << 96, 32),
                    (1, 3),
                ];
                let (b, l) = *rng.pick(&cand);
                prefix_of(true, b, l)
            } else {
                // mostly longer than /8 so that the whole of 127/8 is not covered all the time
                let len = match rng.below(10) {
                    0 => *rng.pick(&[0u8, 8, 16, 24, 32]),
                    1 => rng.range(0, 8) as u8,
                    _ => rng.range(9, 32) as u8,
                };
                let mut b = bits;
                match rng.below(6) {
                    // clean host bits
                    0 | 1 => {
                        b = top_bits(b, w, len as u32)
                            .checked_shl(w - len as u32)
                            .unwrap_or(0)
                            & (u32::MAX as u128)
                    }
                    // near miss: flip one bit inside the mask
                    2 if len > 0 => b ^= 1u128 << (w - 1 - rng.below(len as u64) as u32),
                    // unrelated
                    3 if rng.chance(1, 3) => {
                        b = u32::from(Ipv4Addr::new(*rng.pick(&[10u8, 128, 192, 126]), 1, 2, 3))
                            as u128
                    }
                    // host bits left as they are (dirty unless the address happens to be clean)
                    _ => {}
                }
                prefix_of(false, b, len)
            };
            if !prefixes.iter().any(|x| x.text == p.text) {
                prefixes.push(p);
            }
        }
        groups.push(GroupGen {
            name: format!("g{}", gi),
            c,
            prefixes,
        });
    }
    // static neighbours
    let ns = rng.range(1, 3) as usize;
    let mut neighs: Vec<NeighGen> = Vec::new();
    let mut pool = universe.clone();
    rng.shuffle(&mut pool);
    for a in pool.into_iter().take(ns) {
        let group = if !groups.is_empty() && rng.chance(1, 2) {
            Some(rng.pick(&groups).name.clone())
        } else {
            None
        };
        let mut c = gen_common(rng, false, a.is_ipv6(), confed.is_some(), group.is_some());
        if group.is_none() && c.peer_as == 0 {
            c.peer_as = 65002;
        }
        neighs.push(NeighGen {
            addr: a,
            c,
            group,
            admin_down: rng.chance(1, 4),
            export: if rng.chance(1, 3) {
                let mut names: Vec<String> = POLICIES.iter().map(|s| s.to_string()).collect();
                rng.shuffle(&mut names);
                names.truncate(rng.range(0, 2) as usize);
                Some((rng.bool(), names))
            } else {
                None
            },
        });
    }
    CfgGen {
        loader,
        confed,
        groups,
        neighs,
        universe,
    }
}

// ------------------------------------------------------------------ configuration text / API forms

fn common_toml(p: &str, c: &Common, out: &mut String) {
    if let Some(h) = c.hold {
        out.push_str(&format!("[{p}.timers.config]\nhold-time = {h}.0\n"));
    }
    if c.passive {
        out.push_str(&format!("[{p}.transport.config]\npassive-mode = true\n"));
    }
    if c.rr_client || c.cluster_id.is_some() {
        out.push_str(&format!(
            "[{p}.route-reflector.config]\nroute-reflector-client = {}\n",
            c.rr_client
        ));
        if let Some(id) = c.cluster_id {
            out.push_str(&format!("route-reflector-cluster-id = \"{id}\"\n"));
        }
    }
    if c.rs_client {
        out.push_str(&format!(
            "[{p}.route-server.config]\nroute-server-client = true\n"
        ));
    }
    if let Some((rt, n)) = c.gr {
        out.push_str(&format!("[{p}.graceful-restart.config]\nenabled = true\nrestart-time = {rt}\nnotification-enabled = {n}\n"));
    }
    for f in &c.fams {
        out.push_str(&format!(
            "[[{p}.afi-safis]]\n[{p}.afi-safis.config]\nafi-safi-name = \"{}\"\n",
            f.name
        ));
        if f.gr {
            out.push_str(&format!(
                "[{p}.afi-safis.mp-graceful-restart.config]\nenabled = true\n"
            ));
        }
        if let Some(t) = f.llgr {
            out.push_str(&format!("[{p}.afi-safis.long-lived-graceful-restart.config]\nenabled = true\nrestart-time = {t}\n"));
        }
        if f.rx || f.send_max > 0 {
            out.push_str(&format!(
                "[{p}.afi-safis.add-paths.config]\nreceive = {}\nsend-max = {}\n",
                f.rx, f.send_max
            ));
        }
        if let Some(l) = f.limit {
            let cont = if f.fam == Family::IPV4 {
                "ipv4-unicast"
            } else {
                "ipv6-unicast"
            };
            out.push_str(&format!(
                "[{p}.afi-safis.{cont}.prefix-limit.config]\nmax-prefixes = {l}\n"
            ));
        }
    }
}

fn cfg_toml(cfg: &CfgGen) -> String {
    let mut s = String::new();
    s.push_str(&format!(
        "[global.config]\nas = {}\nrouter-id = \"{}\"\nport = -1\n",
        GLOBAL_AS,
        router_id()
    ));
    if let Some(m) = &cfg.confed {
        s.push_str(&format!(
            "[global.confederation.config]\nenabled = true\nidentifier = {}\nmember-as-list = [{}]\n",
            CONFED_ID,
            m.iter().map(|x| x.to_string()).collect::<Vec<_>>().join(", ")
        ));
    }
    for g in &cfg.groups {
        s.push_str(&format!(
            "[[peer-groups]]\n[peer-groups.config]\npeer-group-name = \"{}\"\n",
            g.name
        ));
        if g.c.peer_as != 0 {
            s.push_str(&format!("peer-as = {}\n", g.c.peer_as));
        }
        if g.c.local_as != 0 {
            s.push_str(&format!("local-as = {}\n", g.c.local_as));
        }
        common_toml("peer-groups", &g.c, &mut s);
    }
    for g in &cfg.groups {
        for p in &g.prefixes {
            s.push_str(&format!("[[dynamic-neighbors]]\n[dynamic-neighbors.config]\nprefix = \"{}\"\npeer-group = \"{}\"\n", p.text, g.name));
        }
    }
    for n in &cfg.neighs {
        s.push_str(&format!(
            "[[neighbors]]\n[neighbors.config]\nneighbor-address = \"{}\"\n",
            n.addr
        ));
        if n.c.peer_as != 0 {
            s.push_str(&format!("peer-as = {}\n", n.c.peer_as));
        }
        if n.c.local_as != 0 {
            s.push_str(&format!("local-as = {}\n", n.c.local_as));
        }
        if let Some(g) = &n.group {
            s.push_str(&format!("peer-group = \"{g}\"\n"));
        }
        if n.admin_down {
            s.push_str("admin-down = true\n");
        }
        if let Some((rej, names)) = &n.export {
            s.push_str(&format!(
                "[neighbors.apply-policy.config]\nexport-policy-list = [{}]\ndefault-export-policy = \"{}\"\n",
                names.iter().map(|x| format!("\"{x}\"")).collect::<Vec<_>>().join(", "),
                if *rej { "reject-route" } else { "accept-route" }
            ));
        }
        common_toml("neighbors", &n.c, &mut s);
    }
    s
}

fn afisafis_api(c: &Common) -> Vec<api::AfiSafi> {
    c.fams
        .iter()
        .map(|f| api::AfiSafi {
            config: Some(api::AfiSafiConfig {
                family: Some(crate::convert::family_to_api(f.fam)),
                enabled: true,
            }),
            mp_graceful_restart: if f.gr {
                Some(api::MpGracefulRestart {
                    config: Some(api::MpGracefulRestartConfig { enabled: true }),
                    ..Default::default()
                })
            } else {
                None
            },
            long_lived_graceful_restart: f.llgr.map(|t| api::LongLivedGracefulRestart {
                config: Some(api::LongLivedGracefulRestartConfig {
                    enabled: true,
                    restart_time: t,
                }),
                ..Default::default()
            }),
            add_paths: if f.rx || f.send_max > 0 {
                Some(api::AddPaths {
                    config: Some(api::AddPathsConfig {
                        receive: f.rx,
                        send_max: f.send_max,
                    }),
                    ..Default::default()
                })
            } else {
                None
            },
            prefix_limits: f.limit.map(|l| api::PrefixLimit {
                family: Some(crate::convert::family_to_api(f.fam)),
                max_prefixes: l,
                shutdown_threshold_pct: 0,
            }),
            ..Default::default()
        })
        .collect()
}

fn timers_api(c: &Common) -> Option<api::Timers> {
    c.hold.map(|h| api::Timers {
        config: Some(api::TimersConfig {
            hold_time: h as u64,
            ..Default::default()
        }),
        ..Default::default()
    })
}

fn rr_api(c: &Common) -> Option<api::RouteReflector> {
    if c.rr_client || c.cluster_id.is_some() {
        Some(api::RouteReflector {
            route_reflector_client: c.rr_client,
            route_reflector_cluster_id: c.cluster_id.map(|x| x.to_string()).unwrap_or_default(),
        })
    } else {
        None
    }
}

fn gr_api(c: &Common) -> Option<api::GracefulRestart> {
    c.gr.map(|(rt, n)| api::GracefulRestart {
        enabled: true,
        restart_time: rt as u32,
        notification_enabled: n,
        ..Default::default()
    })
}

fn group_api(g: &GroupGen) -> api::PeerGroup {
    api::PeerGroup {
        conf: Some(api::PeerGroupConf {
            peer_group_name: g.name.clone(),
            peer_asn: g.c.peer_as,
            local_asn: g.c.local_as,
            ..Default::default()
        }),
        timers: timers_api(&g.c),
        transport: if g.c.passive {
            Some(api::Transport {
                passive_mode: true,
                ..Default::default()
            })
        } else {
            None
        },
        route_reflector: rr_api(&g.c),
        route_server: if g.c.rs_client {
            Some(api::RouteServer {
                route_server_client: true,
                secondary_route: false,
            })
        } else {
            None
        },
        graceful_restart: gr_api(&g.c),
        afi_safis: afisafis_api(&g.c),
        ..Default::default()
    }
}

fn neigh_api(n: &NeighGen) -> api::Peer {
    api::Peer {
        conf: Some(api::PeerConf {
            neighbor_address: n.addr.to_string(),
            peer_asn: n.c.peer_as,
            local_asn: n.c.local_as,
            peer_group: n.group.clone().unwrap_or_default(),
            admin_down: n.admin_down,
            ..Default::default()
        }),
        timers: timers_api(&n.c),
        transport: if n.c.passive {
            Some(api::Transport {
                passive_mode: true,
                ..Default::default()
            })
        } else {
            None
        },
        route_reflector: rr_api(&n.c),
        route_server: if n.c.rs_client {
            Some(api::RouteServer {
                route_server_client: true,
                secondary_route: false,
            })
        } else {
            None
        },
        graceful_restart: gr_api(&n.c),
        afi_safis: afisafis_api(&n.c),
        apply_policy: n.export.as_ref().map(|(rej, names)| api::ApplyPolicy {
            export_policy: Some(api::PolicyAssignment {
                name: n.addr.to_string(),
                direction: api::PolicyDirection::Export as i32,
                policies: names
                    .iter()
                    .map(|x| api::Policy {
                        name: x.clone(),
                        statements: Vec::new(),
                    })
                    .collect(),
                default_action: if *rej {
                    api::RouteAction::Reject as i32
                } else {
                    api::RouteAction::Accept as i32
                },
            }),
            import_policy: None,
        }),
        ..Default::default()
    }
}

// ------------------------------------------------------------------ expectation (from the statement)

#[derive(Clone, Debug)]
struct Expect {
    kind: &'static str,
    group: Option<String>,
    role: Option<PeerRole>,
    local_as: Option<u32>,
    local_as_why: &'static str,
    peer_as: u32,
    hold: Option<u32>,
    mp: BTreeSet<u32>,
    addpath: BTreeMap<u32, u8>,
    send_max: BTreeMap<u32, usize>,
    /// outer None = not judged; inner None = no capability
    gr: Option<Option<(u16, bool, BTreeSet<u32>)>>,
    llgr: Option<BTreeMap<u32, u32>>,
    limits: BTreeMap<u32, u32>,
    export: Option<(bool, Vec<String>)>,
    cluster: Option<Option<Ipv4Addr>>,
    confed_id: u32,
    longest_prefix: u8,
    fams_from_group: bool,
    hold_from_group: bool,
}

fn expectation(
    cfg_confed: &Option<Vec<u32>>,
    n: Option<&NeighGen>,
    g: Option<&GroupGen>,
    addr: &IpAddr,
) -> Expect {
    let empty = Common::default();
    let nc = n.map(|x| &x.c).unwrap_or(&empty);
    let gc = g.map(|x| &x.c).unwrap_or(&empty);
    let kind = match (n, g) {
        (Some(_), None) => "static",
        (Some(_), Some(_)) => "static-in-group",
        _ => "dynamic",
    };
    let peer_as = if nc.peer_as != 0 {
        nc.peer_as
    } else {
        gc.peer_as
    };
    let explicit_local = if nc.local_as != 0 {
        nc.local_as
    } else {
        gc.local_as
    };
    let base_local = if explicit_local != 0 {
        explicit_local
    } else {
        GLOBAL_AS
    };
    let rs = nc.rs_client || gc.rs_client;
    let rr = nc.rr_client || gc.rr_client;
    let members: &[u32] = cfg_confed.as_deref().unwrap_or(&[]);
    let role = if peer_as == 0 {
        None
    } else if rs {
        if peer_as == base_local {
            None
        } else {
            Some(PeerRole::RsClient)
        }
    } else if peer_as == base_local {
        Some(if rr {
            PeerRole::IbgpRrClient
        } else {
            PeerRole::Ibgp
        })
    } else if cfg_confed.is_some() && members.contains(&peer_as) {
        Some(PeerRole::ConfedEbgp)
    } else {
        Some(PeerRole::Ebgp)
    };
    let (local_as, local_as_why) = if cfg_confed.is_some() {
        if explicit_local != 0 || peer_as == 0 {
            (None, "not-judged")
        } else if peer_as == GLOBAL_AS {
            (Some(GLOBAL_AS), "ibgp-in-confederation")
        } else if members.contains(&peer_as) {
            (Some(GLOBAL_AS), "confederation-member")
        } else {
            (Some(CONFED_ID), "confederation-external")
        }
    } else {
        (
            Some(base_local),
            if explicit_local != 0 {
                "local-as-configured"
            } else {
                "global-as"
            },
        )
    };
    let hold = match (nc.hold, gc.hold) {
        // a neighbour hold time equal to the built-in default next to a different group
        // value: the configuration forms cannot tell "unset" from "180" -- not judged
        (Some(180), Some(x)) if x != 180 => None,
        (Some(h), _) => Some(h),
        (None, Some(h)) => Some(h),
        (None, None) => Some(180),
    };
    let own = !nc.fams.is_empty();
    let fams: &[FamGen] = if own { &nc.fams } else { &gc.fams };
    let mut mp = BTreeSet::new();
    let mut addpath = BTreeMap::new();
    let mut send_max = BTreeMap::new();
    let mut limits = BTreeMap::new();
    if fams.is_empty() {
        mp.insert(fid(if addr.is_ipv6() {
            Family::IPV6
        } else {
            Family::IPV4
        }));
    }
    for f in fams {
        mp.insert(fid(f.fam));
        let mode = u8::from(f.rx) | (u8::from(f.send_max > 0) << 1);
        if mode != 0 {
            addpath.insert(fid(f.fam), mode);
        }
        if f.send_max > 0 {
            send_max.insert(fid(f.fam), f.send_max as usize);
        }
    }
    for f in &nc.fams {
        if let Some(l) = f.limit {
            limits.insert(fid(f.fam), l);
        }
    }
    let gr_of = |c: &Common| -> Option<(u16, bool, BTreeSet<u32>)> {
        c.gr.map(|(rt, nb)| {
            (
                rt,
                nb,
                c.fams.iter().filter(|f| f.gr).map(|f| fid(f.fam)).collect(),
            )
        })
    };
    let llgr_of = |c: &Common| -> BTreeMap<u32, u32> {
        c.fams
            .iter()
            .filter_map(|f| f.llgr.map(|t| (fid(f.fam), t)))
            .collect()
    };
    let (gr, llgr) = if own {
        // own family list: GR / LLGR are the neighbour's; when it has none but the group
        // does, the statement does not say whether those are inherited -- not judged
        let gr = if nc.gr.is_some() {
            Some(gr_of(nc))
        } else if gc.gr.is_some() {
            None
        } else {
            Some(None)
        };
        let l = llgr_of(nc);
        let llgr = if !l.is_empty() {
            Some(l)
        } else if !llgr_of(gc).is_empty() {
            None
        } else {
            Some(l)
        };
        (gr, llgr)
    } else {
        (Some(gr_of(gc)), Some(llgr_of(gc)))
    };
    let ibgp = matches!(role, Some(PeerRole::Ibgp) | Some(PeerRole::IbgpRrClient));
    let cluster = if role.is_none() {
        None
    } else if !ibgp {
        Some(None)
    } else {
        match (n, g) {
            (None, Some(_)) => Some(Some(gc.cluster_id.unwrap_or(router_id()))),
            (Some(_), None) => Some(Some(nc.cluster_id.unwrap_or(router_id()))),
            _ => {
                if nc.cluster_id.is_none() && gc.cluster_id.is_none() {
                    Some(Some(router_id()))
                } else {
                    None
                }
            }
        }
    };
    let longest_prefix = g
        .map(|g| {
            g.prefixes
                .iter()
                .filter(|p| ref_contains(p, addr))
                .map(|p| p.len)
                .max()
                .unwrap_or(0)
        })
        .unwrap_or(0);
    Expect {
        kind,
        group: g.map(|x| x.name.clone()),
        role,
        local_as,
        local_as_why,
        peer_as,
        hold,
        mp,
        addpath,
        send_max,
        gr,
        llgr,
        limits,
        export: n.and_then(|x| x.export.clone()),
        cluster,
        confed_id: if cfg_confed.is_some() { CONFED_ID } else { 0 },
        longest_prefix,
        fams_from_group: !own && g.is_some(),
        hold_from_group: nc.hold.is_none() && gc.hold.is_some(),
    }
}

// ------------------------------------------------------------------ observation

#[derive(Clone, Debug, Default)]
struct Observed {
    role: Option<PeerRole>,
    local_as_session: u32,
    confed_id: u32,
    cluster: Option<Ipv4Addr>,
    limits: BTreeMap<u32, u32>,
    export: Option<(bool, Vec<String>)>,
    expected_as: u32,
    send_max: BTreeMap<u32, usize>,
    // from the OPEN on the wire
    open_seen: bool,
    open_as: u32,
    open_hold: u32,
    open_router_id: u32,
    mp: BTreeSet<u32>,
    addpath: BTreeMap<u32, u8>,
    gr: Option<(u8, u16, BTreeSet<u32>)>,
    llgr: Option<BTreeMap<u32, u32>>,
    as4: Option<u32>,
    extmsg: bool,
    caps: Vec<String>,
}

fn fold_open(o: &mut Observed, open: &bgp::Open) {
    o.open_seen = true;
    o.open_as = open.as_number;
    o.open_hold = open.holdtime.seconds() as u32;
    o.open_router_id = open.router_id;
    for c in &open.capability {
        o.caps.push(format!("{:?}", c));
        match c {
            packet::Capability::MultiProtocol(f) => {
                o.mp.insert(fid(*f));
            }
            packet::Capability::AddPath(e) => {
                for (f, m) in e {
                    o.addpath.insert(fid(*f), *m);
                }
            }
            packet::Capability::GracefulRestart {
                flags,
                restart_time,
                families,
            } => {
                if o.gr.is_none() {
                    o.gr = Some((
                        *flags,
                        *restart_time,
                        families.iter().map(|(f, _)| fid(*f)).collect(),
                    ));
                }
            }
            packet::Capability::LongLivedGracefulRestart(v) => {
                let m = o.llgr.get_or_insert_with(BTreeMap::new);
                for (f, _, t) in v {
                    m.insert(fid(*f), *t);
                }
            }
            packet::Capability::FourOctetAsNumber(a) => o.as4 = Some(*a),
            packet::Capability::ExtendedMessage => o.extmsg = true,
            _ => {}
        }
    }
}

/// (field for the signature, what differs)
fn diff(e: &Expect, o: &Observed) -> Vec<(String, String)> {
    let mut d: Vec<(String, String)> = Vec::new();
    if let (Some(want), Some(got)) = (e.role, o.role) {
        if want != got {
            d.push((
                format!("role/{:?}-configured-{:?}-derived", want, got),
                format!("role {:?}, configuration means {:?}", got, want),
            ));
        }
    }
    if let Some(want) = e.local_as {
        if o.local_as_session != want {
            d.push((
                format!("local-as/{}", e.local_as_why),
                format!(
                    "session local AS {}, configuration means {}",
                    o.local_as_session, want
                ),
            ));
        }
        if o.open_seen && (o.open_as != want || o.as4 != Some(want)) {
            d.push((
                format!("open-as/{}", e.local_as_why),
                format!(
                    "OPEN carries AS {} (4-octet capability {:?}), configuration means {}",
                    o.open_as, o.as4, want
                ),
            ));
        }
    }
    if o.expected_as != e.peer_as {
        d.push((
            "expected-as".into(),
            format!(
                "expected remote AS {}, configuration means {}",
                o.expected_as, e.peer_as
            ),
        ));
    }
    if o.confed_id != e.confed_id {
        d.push((
            "confederation-id".into(),
            format!(
                "session confederation id {}, configured {}",
                o.confed_id, e.confed_id
            ),
        ));
    }
    if let Some(want) = e.cluster {
        if o.cluster != want {
            d.push((
                "cluster-id".into(),
                format!(
                    "session cluster id {:?}, configuration means {:?}",
                    o.cluster, want
                ),
            ));
        }
    }
    if o.limits != e.limits {
        d.push((
            "prefix-limits".into(),
            format!(
                "session prefix limits {:?}, configured {:?}",
                o.limits, e.limits
            ),
        ));
    }
    if o.export != e.export {
        d.push((
            "export-policy".into(),
            format!(
                "session export policy {:?}, configured {:?}",
                o.export, e.export
            ),
        ));
    }
    if o.send_max != e.send_max {
        d.push((
            "addpath-send-max".into(),
            format!(
                "add-path send-max {:?}, configured {:?}",
                o.send_max, e.send_max
            ),
        ));
    }
    if o.open_seen {
        if let Some(h) = e.hold {
            if o.open_hold != h {
                d.push((
                    "hold-time".into(),
                    format!("OPEN hold time {}, configuration means {}", o.open_hold, h),
                ));
            }
        }
        if o.mp != e.mp {
            d.push((
                "families".into(),
                format!("OPEN families {:x?}, configured {:x?}", o.mp, e.mp),
            ));
        }
        if o.addpath != e.addpath {
            d.push((
                "addpath".into(),
                format!(
                    "OPEN add-path {:x?}, configured {:x?}",
                    o.addpath, e.addpath
                ),
            ));
        }
        if let Some(want) = &e.gr {
            let got =
                o.gr.as_ref()
                    .map(|(fl, rt, f)| (*rt, fl & 0x4 != 0, f.clone()));
            if &got != want {
                d.push((
                    "graceful-restart".into(),
                    format!(
                        "OPEN GR (restart time, N bit, families) {:x?}, configured {:x?}",
                        got, want
                    ),
                ));
            }
            if let Some((fl, _, _)) = &o.gr {
                if fl & 0x8 != 0 {
                    d.push((
                        "graceful-restart/r-bit".into(),
                        "OPEN GR capability has the R bit although the speaker is not restarting"
                            .into(),
                    ));
                }
            }
        }
        if let Some(want) = &e.llgr {
            let got = o.llgr.clone().unwrap_or_default();
            if &got != want {
                d.push((
                    "llgr".into(),
                    format!(
                        "OPEN LLGR (family -> stale time) {:x?}, configured {:x?}",
                        got, want
                    ),
                ));
            }
        }
    }
    // one root cause, one signature: differences that follow from another one are dropped
    let has = |d: &Vec<(String, String)>, p: &str| d.iter().any(|(f, _)| f.starts_with(p));
    if has(&d, "local-as/") {
        // the wrong local AS is what goes into the OPEN, and (iBGP = same AS) decides the role
        let confed_ibgp = has(&d, "local-as/ibgp-in-confederation");
        d.retain(|(f, _)| {
            !f.starts_with("open-as/")
                && !(confed_ibgp && (f.starts_with("role/") || f == "cluster-id"))
        });
    }
    if has(&d, "role/") {
        d.retain(|(f, _)| f != "cluster-id");
    }
    if has(&d, "addpath") && d.iter().any(|(f, _)| f == "addpath") {
        d.retain(|(f, _)| f != "addpath-send-max");
    }
    d
}

// ------------------------------------------------------------------ the world: real Global + real sockets + model

struct Conn {
    id: usize,
    addr: IpAddr,
    role: Role,
    client: Option<TcpStream>,
    rx: BytesMut,
    done_rx: Option<tokio::sync::oneshot::Receiver<Option<(String, String)>>>,
    done: bool,
    arb: Arc<std::sync::Mutex<ConnArbiter>>,
    dynamic: bool,
    had_sibling: bool,
    peer_as: u32,
    open_hold: u32,
    open_mp: Vec<u32>,
    open_read: bool,
    driven: bool,
    /// the peer group whose parameters the session was found to carry (dynamic neighbours)
    group: Option<String>,
    group_epoch: u64,
    tag: &'static str,
    /// GR / LLGR of the OPEN the session sent (flags, families) -- mirrored by the client when it establishes
    open_gr: Option<(u8, Vec<u32>)>,
    open_llgr: Vec<u32>,
    /// GR or LLGR is in force for this session (both OPENs carried it for a common family)
    gr_negotiated: bool,
    n_bit: bool,
    established: bool,
    /// how the session was ended (for the clean-up counters / signatures)
    end_kind: &'static str,
}

enum Adm {
    Accept(String),
    Refuse(String),
    Unjudged(String),
}

enum Rd {
    Msg(bgp::ParsedMessage),
    Eof,
    Reset,
    Timeout,
    Bad(String),
}

struct World<'a> {
    rep: &'a mut Report,
    loader: Loader,
    confed: Option<Vec<u32>>,
    cfg_text: String,
    cfg_hash: u64,
    statics: BTreeMap<IpAddr, NeighGen>,
    src: BTreeMap<IpAddr, &'static str>,
    /// number of UpdatePeerGroup calls applied to a group / what a member or instance saw of it
    group_epoch: BTreeMap<String, u64>,
    member_epoch: BTreeMap<IpAddr, u64>,
    removed: Vec<NeighGen>,
    groups: Vec<GroupGen>,
    /// the groups as first loaded (what UpdatePeerGroup started from)
    groups0: Vec<GroupGen>,
    universe: Vec<IpAddr>,
    global: GlobalHandle,
    tables: TableHandle,
    svc: GrpcService,
    active_tx: mpsc::UnboundedSender<TcpStream>,
    active_rx: mpsc::UnboundedReceiver<TcpStream>,
    l4: TcpListener,
    l6: Option<TcpListener>,
    conns: Vec<Conn>,
    history: Vec<String>,
    aborted: bool,
    /// ended after a violation that leaves the daemon in a state outside the model
    tainted: bool,
    /// no further configuration steps (only the wind-down) in this history
    last_op_done: bool,
    probe_tag: Option<&'static str>,
    trace: bool,
    index: u64,
}

fn role_name(r: Role) -> &'static str {
    match r {
        Role::Active => "active",
        Role::Passive => "passive",
    }
}

fn add_policies(g: &mut Global) -> Result<(), String> {
    for p in POLICIES {
        let stmt = format!("{p}-stmt");
        g.ptable
            .add_statement(
                &stmt,
                Vec::new(),
                Some(table::Disposition::Accept),
                table::Actions::default(),
            )
            .map_err(|e| format!("add_statement: {:?}", e))?;
        g.ptable
            .add_policy(p, vec![stmt])
            .map_err(|e| format!("add_policy: {:?}", e))?;
    }
    Ok(())
}

async fn build_world<'a>(
    cfg: &CfgGen,
    rep: &'a mut Report,
    trace: bool,
    index: u64,
) -> Result<World<'a>, String> {
    let (active_tx, active_rx) = mpsc::unbounded_channel::<TcpStream>();
    let (ktx, _krx) = mpsc::unbounded_channel();
    let (btx, _brx) = mpsc::unbounded_channel();
    let tables: TableHandle = Arc::new(TableManager::new(1));
    let text = cfg_toml(cfg);
    let mut src = BTreeMap::new();
    let (global, svc) = match cfg.loader {
        Loader::Grpc => {
            let global: GlobalHandle = Arc::new(tokio::sync::RwLock::new(Global::new(ktx, btx)));
            let svc = GrpcService::new(
                Arc::new(tokio::sync::Notify::new()),
                active_tx.clone(),
                global.clone(),
                tables.clone(),
            );
            svc.start_bgp(tonic::Request::new(api::StartBgpRequest {
                global: Some(api::Global {
                    asn: GLOBAL_AS,
                    router_id: router_id().to_string(),
                    listen_port: -1,
                    confederation: cfg.confed.as_ref().map(|m| api::Confederation {
                        enabled: true,
                        identifier: CONFED_ID,
                        member_as_list: m.clone(),
                    }),
                    ..Default::default()
                }),
            }))
            .await
            .map_err(|e| format!("start_bgp: {}", e))?;
            add_policies(&mut *global.write().await)?;
            for g in &cfg.groups {
                svc.add_peer_group(tonic::Request::new(api::AddPeerGroupRequest {
                    peer_group: Some(group_api(g)),
                }))
                .await
                .map_err(|e| format!("add_peer_group: {}", e))?;
                for p in &g.prefixes {
                    svc.add_dynamic_neighbor(tonic::Request::new(api::AddDynamicNeighborRequest {
                        dynamic_neighbor: Some(api::DynamicNeighbor {
                            prefix: p.text.clone(),
                            peer_group: g.name.clone(),
                        }),
                    }))
                    .await
                    .map_err(|e| format!("add_dynamic_neighbor {}: {}", p.text, e))?;
                }
            }
            for n in &cfg.neighs {
                svc.add_peer(tonic::Request::new(api::AddPeerRequest {
                    peer: Some(neigh_api(n)),
                }))
                .await
                .map_err(|e| format!("add_peer {}: {}", n.addr, e))?;
                src.insert(n.addr, "grpc");
            }
            (global, svc)
        }
        Loader::Toml => {
            // what main() + Global::serve do with a configuration file
            let bgp: config::BgpConfig =
                toml::from_str(&text).map_err(|e| format!("toml: {}", e))?;
            bgp.validate().map_err(|e| format!("validate: {}", e))?;
            let mut g = Global::new(ktx, btx);
            g.apply_config(tables.clone(), &bgp)
                .map_err(|e| format!("apply_config: {:?}", e))?;
            add_policies(&mut g)?;
            if let Some(neighbors) = bgp.dynamic_neighbors.as_ref() {
                for n in neighbors {
                    if let Some(prefix) = n.config.as_ref().and_then(|x| x.prefix.as_ref())
                        && let Ok(prefix) = packet::IpNet::from_str(prefix)
                        && let Some(name) = n.config.as_ref().and_then(|x| x.peer_group.as_ref())
                    {
                        g.peer_group
                            .entry(name.to_string())
                            .and_modify(|e| e.dynamic_peers.push(DynamicPeer { prefix }));
                    }
                }
            }
            if let Some(peers) = bgp.neighbors.as_ref() {
                for p in peers {
                    let mut params = PeerParams::try_from(p)
                        .map_err(|e| format!("PeerParams::try_from: {}", e))?;
                    let pg = p.config.as_ref().and_then(|c| c.peer_group.clone());
                    if let Some(pg) = pg.as_deref().and_then(|n| g.peer_group.get(n)) {
                        params.apply_peer_group(pg);
                    }
                    let a = params.remote_addr;
                    g.add_peer(params, Some(active_tx.clone()))
                        .map_err(|e| format!("add_peer: {:?}", e))?;
                    src.insert(a, "toml");
                }
            }
            let global: GlobalHandle = Arc::new(tokio::sync::RwLock::new(g));
            let svc = GrpcService::new(
                Arc::new(tokio::sync::Notify::new()),
                active_tx.clone(),
                global.clone(),
                tables.clone(),
            );
            (global, svc)
        }
    };
    let l4 = crate::verif_hooks::bind_retry(SocketAddr::new(IpAddr::V4(Ipv4Addr::LOCALHOST), 0))
        .await
        .map_err(|e| format!("bind v4 listener: {}", e))?;
    let l6 = crate::verif_hooks::bind_retry(SocketAddr::new(IpAddr::V6(Ipv6Addr::LOCALHOST), 0))
        .await
        .ok();
    Ok(World {
        rep,
        loader: cfg.loader,
        confed: cfg.confed.clone(),
        cfg_hash: fnv64(format!("{:?}{}", cfg.loader, text).as_bytes()),
        cfg_text: text,
        statics: cfg.neighs.iter().map(|n| (n.addr, n.clone())).collect(),
        src,
        group_epoch: BTreeMap::new(),
        member_epoch: BTreeMap::new(),
        removed: Vec::new(),
        groups: cfg.groups.clone(),
        groups0: cfg.groups.clone(),
        universe: cfg.universe.clone(),
        global,
        tables,
        svc,
        active_tx,
        active_rx,
        l4,
        l6,
        conns: Vec::new(),
        history: Vec::new(),
        aborted: false,
        tainted: false,
        last_op_done: false,
        probe_tag: None,
        trace,
        index,
    })
}

impl<'a> World<'a> {
    fn loader_name(&self) -> &'static str {
        match self.loader {
            Loader::Grpc => "grpc",
            Loader::Toml => "toml",
        }
    }

    fn witness(&self, extra: Vec<(&str, Json)>) -> Json {
        let mut v = vec![
            ("loader", Json::s(self.loader_name())),
            ("configuration_index", Json::Int(self.index as i128)),
            (
                "replay",
                Json::s(format!(
                    "VERIF_SEED=<shard seed> VERIF_TIER=<tier> VERIF_PART=accept VERIF_ONLY={} VERIF_TRACE=1 <e2 test binary> event::verif::c16::run --exact --nocapture",
                    self.index
                )),
            ),
            ("configuration", Json::s(self.cfg_text.clone())),
            ("history", Json::strs(self.history.iter().cloned())),
        ];
        v.extend(extra);
        Json::obj(v)
    }

    fn log(&mut self, s: String) {
        if self.trace {
            eprintln!("  {}", s);
        }
        self.history.push(s);
    }

    fn case_hash(&self) -> u64 {
        fnv64(format!("{:x}|{}", self.cfg_hash, self.history.join(";")).as_bytes())
    }

    fn abort(&mut self, why: &str) {
        eprintln!(
            "[C16] history abandoned (configuration index {}): {}; last steps: {:?}",
            self.index,
            why,
            self.history.iter().rev().take(5).collect::<Vec<_>>()
        );
        self.rep.inconclusive(why);
        self.aborted = true;
    }

    /// note which session tasks have finished (state, not time)
    fn refresh(&mut self) -> Vec<usize> {
        let mut ended = Vec::new();
        for i in 0..self.conns.len() {
            if self.conns[i].done {
                continue;
            }
            let fin = match self.conns[i].done_rx.as_mut() {
                Some(rx) => match rx.try_recv() {
                    Ok(p) => Some(p),
                    Err(tokio::sync::oneshot::error::TryRecvError::Closed) => Some(None),
                    Err(tokio::sync::oneshot::error::TryRecvError::Empty) => None,
                },
                None => Some(None),
            };
            if let Some(p) = fin {
                self.finish_conn(i, p);
                ended.push(i);
            }
        }
        ended
    }

    fn finish_conn(&mut self, i: usize, panic: Option<(String, String)>) {
        self.conns[i].done = true;
        self.conns[i].done_rx = None;
        self.conns[i].client = None;
        if let Some((loc, msg)) = panic {
            let w = self.witness(vec![("panic", Json::s(msg.clone()))]);
            self.rep.violation(
                &format!("C16/panic/{}:{}", loc, panic_class(&msg)),
                &format!("PeerSession::run panicked: {}", msg),
                w,
            );
        }
    }

    async fn await_done(&mut self, i: usize) -> bool {
        if self.conns[i].done {
            return true;
        }
        let Some(mut rx) = self.conns[i].done_rx.take() else {
            self.finish_conn(i, None);
            return true;
        };
        match tokio::time::timeout(WATCHDOG, &mut rx).await {
            Ok(r) => {
                self.finish_conn(i, r.unwrap_or(None));
                true
            }
            Err(_) => {
                self.conns[i].done_rx = Some(rx);
                let id = self.conns[i].id;
                self.abort(&format!("watchdog: session task of connection #{} did not finish within {:?} after it was told to", id, WATCHDOG));
                false
            }
        }
    }

    fn live(&self, addr: &IpAddr) -> Vec<usize> {
        (0..self.conns.len())
            .filter(|i| !self.conns[*i].done && &self.conns[*i].addr == addr)
            .collect()
    }

    fn containing(&self, addr: &IpAddr) -> Vec<(usize, PrefixGen)> {
        let mut v = Vec::new();
        for (gi, g) in self.groups.iter().enumerate() {
            for p in &g.prefixes {
                if ref_contains(p, addr) {
                    v.push((gi, p.clone()));
                }
            }
        }
        v
    }

    fn admission(&self, addr: &IpAddr, role: Role) -> Adm {
        let live = self.live(addr);
        let live_same = live.iter().any(|i| self.conns[*i].role == role);
        let cont = self.containing(addr);
        if let Some(n) = self.statics.get(addr) {
            // connections accepted while the address was a dynamic neighbour may still be alive
            if live.iter().any(|i| self.conns[*i].dynamic) {
                return Adm::Unjudged("configured-neighbour-with-older-dynamic-connections".into());
            }
            if !n.admin_down && !live_same {
                return Adm::Accept("configured-up-free".into());
            }
            if !cont.is_empty() {
                // the statement's "or lies inside a dynamic prefix" read literally would admit it
                return Adm::Unjudged(
                    "configured-neighbour-refusable-but-inside-dynamic-prefix".into(),
                );
            }
            return Adm::Refuse(if n.admin_down {
                "admin-down".into()
            } else {
                "duplicate-direction".into()
            });
        }
        if !live.is_empty() {
            // an instantiated dynamic neighbour (or the connections of a deleted one)
            if live_same {
                return Adm::Unjudged("instantiated-dynamic-neighbour-duplicate-direction".into());
            }
            if cont.is_empty() {
                return Adm::Unjudged("instantiated-dynamic-neighbour-prefix-gone".into());
            }
        }
        if cont.is_empty() {
            return Adm::Refuse("not-configured".into());
        }
        let rank = |c: &str| {
            if c.ends_with("clean") {
                0
            } else if c.ends_with("dirty-host-bits") {
                1
            } else {
                2
            }
        };
        let best = cont
            .iter()
            .map(|(_, p)| prefix_class(p))
            .min_by_key(|c| (rank(c), c.clone()))
            .unwrap();
        Adm::Accept(format!("dynamic-prefix/{}", best))
    }

    /// Every harness socket is closed with RST (no TIME_WAIT left behind) and bind / connect
    /// wait out a shortage of ephemeral ports (crate::verif_hooks helpers).
    async fn make_pair(&self, addr: IpAddr, role: Role) -> Result<(TcpStream, TcpStream), String> {
        match role {
            Role::Passive => {
                let l = if addr.is_ipv4() {
                    &self.l4
                } else {
                    self.l6.as_ref().ok_or("no ::1 listener")?
                };
                let la = l.local_addr().map_err(|e| e.to_string())?;
                let mut last = String::new();
                for _ in 0..200 {
                    let sock = if addr.is_ipv4() {
                        TcpSocket::new_v4()
                    } else {
                        TcpSocket::new_v6()
                    }
                    .map_err(|e| e.to_string())?;
                    let shortage = |e: &std::io::Error| {
                        matches!(
                            e.kind(),
                            std::io::ErrorKind::AddrInUse | std::io::ErrorKind::AddrNotAvailable
                        )
                    };
                    if let Err(e) = sock.bind(SocketAddr::new(addr, 0)) {
                        if shortage(&e) {
                            last = format!("bind {}: {}", addr, e);
                            tokio::time::sleep(Duration::from_millis(500)).await;
                            continue;
                        }
                        return Err(format!("bind {}: {}", addr, e));
                    }
                    let (c, s) = tokio::join!(sock.connect(la), async {
                        // the connect may fail: do not wait for a connection that never comes
                        tokio::time::timeout(Duration::from_secs(5), l.accept()).await
                    });
                    let c = match c {
                        Ok(c) => c,
                        Err(e) if shortage(&e) => {
                            last = format!("connect from {}: {}", addr, e);
                            tokio::time::sleep(Duration::from_millis(500)).await;
                            continue;
                        }
                        Err(e) => return Err(format!("connect from {}: {}", addr, e)),
                    };
                    let (s, from) = match s {
                        Ok(Ok(x)) => x,
                        Ok(Err(e)) => return Err(e.to_string()),
                        Err(_) => return Err("accept on the harness listener timed out".into()),
                    };
                    crate::verif_hooks::no_time_wait(&c);
                    crate::verif_hooks::no_time_wait(&s);
                    if from.ip() != addr {
                        return Err(format!(
                            "accepted a connection from {} instead of {}",
                            from.ip(),
                            addr
                        ));
                    }
                    return Ok((c, s));
                }
                Err(format!("no ephemeral port after 200 tries: {}", last))
            }
            Role::Active => {
                // what enable_active_connect produces: a socket connected TO the neighbour's address
                let l = crate::verif_hooks::bind_retry(SocketAddr::new(addr, 0))
                    .await
                    .map_err(|e| format!("bind listener {}: {}", addr, e))?;
                let la = l.local_addr().map_err(|e| e.to_string())?;
                let (d, c) = tokio::join!(crate::verif_hooks::connect_retry(la), async {
                    tokio::time::timeout(Duration::from_secs(110), l.accept()).await
                });
                let d = d.map_err(|e| format!("connect to {}: {}", addr, e))?;
                let (c, _) = match c {
                    Ok(Ok(x)) => x,
                    Ok(Err(e)) => return Err(e.to_string()),
                    Err(_) => return Err("accept on the harness listener timed out".into()),
                };
                crate::verif_hooks::no_time_wait(&c);
                crate::verif_hooks::no_time_wait(&d);
                Ok((c, d))
            }
        }
    }

    async fn read_msg(&mut self, i: usize) -> Rd {
        loop {
            let mut codec = bgp::PeerCodec::new();
            match codec.try_parse(&mut self.conns[i].rx) {
                Ok(Some(m)) => return Rd::Msg(m),
                Ok(None) => {}
                Err(n) => return Rd::Bad(format!("{:?}", n)),
            }
            let c = &mut self.conns[i];
            let Some(client) = c.client.as_mut() else {
                return Rd::Eof;
            };
            match tokio::time::timeout(WATCHDOG, client.readable()).await {
                Err(_) => return Rd::Timeout,
                Ok(Err(_)) => return Rd::Reset,
                Ok(Ok(())) => {}
            }
            match client.try_read_buf(&mut c.rx) {
                Ok(0) => return Rd::Eof,
                Ok(_) => {}
                Err(ref e) if e.kind() == std::io::ErrorKind::WouldBlock => {}
                Err(_) => return Rd::Reset,
            }
        }
    }
}

/// read the client end until the other side closes: (bytes received, how it ended)
async fn drain_to_eof(client: &mut TcpStream) -> (Vec<u8>, &'static str) {
    let mut buf = BytesMut::with_capacity(4096);
    loop {
        match tokio::time::timeout(WATCHDOG, client.readable()).await {
            Err(_) => return (buf.to_vec(), "timeout"),
            Ok(Err(_)) => return (buf.to_vec(), "reset"),
            Ok(Ok(())) => {}
        }
        match client.try_read_buf(&mut buf) {
            Ok(0) => return (buf.to_vec(), "eof"),
            Ok(_) => {}
            Err(ref e) if e.kind() == std::io::ErrorKind::WouldBlock => {}
            Err(_) => return (buf.to_vec(), "reset"),
        }
    }
}

#[derive(Clone, Copy, Debug, PartialEq)]
enum Drive {
    Silent,
    Establish,
    BadAs,
}

impl<'a> World<'a> {
    /// one connection handed to accept_connection; `judged` = the admission clause applies
    async fn op_connect(
        &mut self,
        addr: IpAddr,
        role: Role,
        drive: Drive,
        pre: Option<(TcpStream, TcpStream)>,
        judged: bool,
    ) {
        for i in self.refresh() {
            let a = self.conns[i].addr;
            self.check_cleanup(a, i).await;
        }
        let adm = if judged {
            self.admission(&addr, role)
        } else {
            Adm::Unjudged("arrived-before-the-neighbour-was-replaced".into())
        };
        let pair = match pre {
            Some(p) => Ok(p),
            None => self.make_pair(addr, role).await,
        };
        let (mut client, server) = match pair {
            Ok(p) => p,
            Err(e) => {
                self.abort(&format!(
                    "harness: cannot build a loopback connection: {}",
                    e
                ));
                return;
            }
        };
        // (both ends are closed with RST -- no TIME_WAIT; on loopback bytes written before the
        // close are in the client's receive queue before the RST and are still read first)
        let is_static = self.statics.contains_key(&addr);
        let sib = self.live(&addr);
        let res = accept_connection(&self.global, &self.tables, server, role).await;
        self.rep.eval();
        self.rep.count("connections");
        self.rep.count(if role == Role::Active {
            "role:active"
        } else {
            "role:passive"
        });
        self.rep
            .count(if addr.is_ipv6() { "addr:v6" } else { "addr:v4" });
        let got = res.is_some();
        self.log(format!(
            "connect #{} from {} role={} -> {}",
            self.conns.len(),
            addr,
            role_name(role),
            if got { "session" } else { "refused" }
        ));
        let mut skip_setup = false;
        match &adm {
            Adm::Accept(why) => {
                self.rep.count(&format!(
                    "admission:expect-accept:{}",
                    why.split('/').next().unwrap_or("")
                ));
                if why.starts_with("dynamic-prefix") {
                    self.rep
                        .count(&format!("prefix-class:{}", &why["dynamic-prefix/".len()..]));
                }
                self.rep.nontrivial(self.case_hash());
                if !got {
                    let w = self.witness(vec![
                        ("address", Json::s(addr.to_string())),
                        ("role", Json::s(role_name(role))),
                        ("expected", Json::s(format!("accept: {}", why))),
                    ]);
                    self.rep.violation(
                        &format!("C16/admission/expected-accept/{}", why),
                        "a connection the statement admits (configured, up, no connection in that direction / inside a dynamic-neighbour prefix) was refused",
                        w,
                    );
                }
            }
            Adm::Refuse(why) => {
                self.rep.count(&format!("admission:expect-refuse:{}", why));
                if why == "duplicate-direction" {
                    self.rep.count(&format!(
                        "admission:expect-refuse:duplicate-direction:{}",
                        role_name(role)
                    ));
                }
                if why != "not-configured" || !self.groups.iter().all(|g| g.prefixes.is_empty()) {
                    self.rep.nontrivial(self.case_hash());
                }
                if got {
                    skip_setup = true;
                    let w = self.witness(vec![
                        ("address", Json::s(addr.to_string())),
                        ("role", Json::s(role_name(role))),
                        ("expected", Json::s(format!("refuse: {}", why))),
                    ]);
                    let sig = match self.probe_tag {
                        Some(t) => format!("C16/admission/expected-refuse/{}/{}", why, t),
                        None => format!("C16/admission/expected-refuse/{}", why),
                    };
                    self.rep.violation(
                        &sig,
                        "a connection the statement does not admit became a session",
                        w,
                    );
                    // the daemon is now in a state the model does not describe (two sessions share
                    // one FSM slot): the history ends here, the runtime and its tasks are dropped
                    self.tainted = true;
                }
            }
            Adm::Unjudged(why) => self.rep.count(&format!("unjudged:admission:{}", why)),
        }
        match res {
            None => {
                // dropped before an OPEN is sent: zero bytes, then EOF
                let (bytes, how) = drain_to_eof(&mut client).await;
                self.rep.eval();
                self.rep.count("refused:drained");
                if how == "timeout" {
                    self.abort("watchdog: a refused connection was not closed");
                } else if !bytes.is_empty() {
                    let ty = if bytes.len() >= 19 {
                        match bytes[18] {
                            1 => "open",
                            3 => "notification",
                            4 => "keepalive",
                            _ => "other",
                        }
                    } else {
                        "fragment"
                    };
                    let w = self.witness(vec![
                        ("address", Json::s(addr.to_string())),
                        ("bytes", Json::s(hex(&bytes))),
                    ]);
                    self.rep.violation(
                        &format!("C16/refused-bytes/{}", ty),
                        "a refused connection received bytes before it was closed",
                        w,
                    );
                } else {
                    self.rep.count(&format!("refused:zero-bytes-then-{}", how));
                }
            }
            Some(session) => {
                for s in &sib {
                    self.conns[*s].had_sibling = true;
                }
                self.after_accept(
                    session,
                    client,
                    addr,
                    role,
                    drive,
                    is_static,
                    !sib.is_empty(),
                    skip_setup,
                )
                .await;
            }
        }
    }

    #[allow(clippy::too_many_arguments)]
    async fn after_accept(
        &mut self,
        session: PeerSession,
        client: TcpStream,
        addr: IpAddr,
        role: Role,
        drive: Drive,
        is_static: bool,
        had_sibling: bool,
        skip_setup: bool,
    ) {
        crate::verif_hooks::no_time_wait(&client);
        // ---- what the session was set up with
        let mut obs = Observed {
            role: Some(session.export_ctx.role),
            local_as_session: session.export_ctx.local_asn,
            confed_id: session.export_ctx.confederation_id,
            cluster: session.cluster_id,
            limits: session
                .prefix_counters
                .iter()
                .map(|(f, (max, _))| (fid(*f), *max))
                .collect(),
            export: session.state.export_policy.load_full().map(|a| {
                (
                    a.disposition == table::Disposition::Reject,
                    a.policies.iter().map(|p| p.name.to_string()).collect(),
                )
            }),
            ..Default::default()
        };
        {
            let g = self.global.read().await;
            if let Some(p) = g.peers.get(&addr) {
                obs.expected_as = p.config.expected_remote_asn;
                let ctx = p.context.lock().unwrap();
                let arb = ctx.conn_arbiter.lock().unwrap();
                obs.send_max = arb
                    .fsm()
                    .configured_send_max()
                    .iter()
                    .map(|(f, v)| (fid(*f), *v))
                    .collect();
            }
        }
        // ---- run it the way Global::serve does
        let arb = session.conn_arbiter.clone();
        let (done_tx, done_rx) = tokio::sync::oneshot::channel::<Option<(String, String)>>();
        let g2 = self.global.clone();
        let atx = self.active_tx.clone();
        let jh = tokio::spawn(async move {
            let r = std::panic::AssertUnwindSafe(session.run(g2, atx))
                .catch_unwind()
                .await;
            let _ = done_tx.send(if r.is_err() { Some(take_panic()) } else { None });
        });
        match role {
            Role::Active => arb.lock().unwrap().active_join_handle = Some(jh),
            Role::Passive => arb.lock().unwrap().passive_join_handle = Some(jh),
        }
        let id = self.conns.len();
        self.conns.push(Conn {
            id,
            addr,
            role,
            client: Some(client),
            rx: BytesMut::with_capacity(4096),
            done_rx: Some(done_rx),
            done: false,
            arb,
            dynamic: !is_static,
            had_sibling,
            peer_as: 0,
            open_hold: 0,
            open_mp: Vec::new(),
            open_read: false,
            driven: false,
            group: None,
            group_epoch: 0,
            tag: "",
            open_gr: None,
            open_llgr: Vec::new(),
            gr_negotiated: false,
            n_bit: false,
            established: false,
            end_kind: "",
        });
        if skip_setup {
            // admission already violated; there is no configuration to compare with
            return;
        }
        // ---- the OPEN it emits
        match self.read_msg(id).await {
            Rd::Msg(bgp::ParsedMessage::Open(open)) => {
                fold_open(&mut obs, &open);
                self.conns[id].open_read = true;
                self.conns[id].open_hold = obs.open_hold;
                self.conns[id].open_mp = obs.mp.iter().copied().collect();
                self.conns[id].open_gr = obs.gr.as_ref().map(|(fl, _, f)| (*fl, f.iter().copied().collect()));
                self.conns[id].open_llgr = obs.llgr.as_ref().map(|m| m.keys().copied().collect()).unwrap_or_default();
                self.rep.count("open:read");
            }
            Rd::Msg(_) => {
                let w = self.witness(vec![("address", Json::s(addr.to_string()))]);
                self.rep.violation(
                    "C16/setup/first-message-not-open",
                    "an accepted session's first message is not an OPEN",
                    w,
                );
            }
            Rd::Timeout => {
                self.abort("watchdog: an accepted session did not emit its OPEN");
                return;
            }
            Rd::Eof | Rd::Reset => {
                self.rep.count("unjudged:setup:session-closed-before-open");
                self.await_done(id).await;
                self.check_cleanup(addr, id).await;
                return;
            }
            Rd::Bad(e) => {
                let w = self.witness(vec![
                    ("address", Json::s(addr.to_string())),
                    ("decode", Json::s(e)),
                ]);
                self.rep.violation(
                    "C16/setup/open-undecodable",
                    "the OPEN an accepted session emits does not decode",
                    w,
                );
                return;
            }
        }
        // ---- compare with the configuration
        let cands: Vec<Expect> = if let Some(n) = self.statics.get(&addr) {
            let g = n
                .group
                .as_ref()
                .and_then(|name| self.groups.iter().find(|g| &g.name == name));
            if let Some(g) = g {
                if self.member_epoch.get(&addr).copied().unwrap_or(0)
                    != self.group_epoch.get(&g.name).copied().unwrap_or(0)
                {
                    // the group was re-configured after this member took its values from it: whether
                    // existing members follow is not said
                    self.rep
                        .count("unjudged:setup:member-of-a-group-updated-later");
                    return;
                }
            }
            vec![expectation(&self.confed, Some(n), g, &addr)]
        } else if let Some((gname, gep)) = self
            .live(&addr)
            .into_iter()
            .filter(|i| *i != id && self.conns[*i].dynamic)
            .find_map(|i| {
                self.conns[i]
                    .group
                    .clone()
                    .map(|g| (g, self.conns[i].group_epoch))
            })
            .filter(|(g, ep)| self.group_epoch.get(g).copied().unwrap_or(0) != *ep)
        {
            // it stays part of that older instance for whoever joins next
            self.conns[id].group = Some(gname);
            self.conns[id].group_epoch = gep;
            self.rep
                .count("unjudged:setup:instance-of-a-group-updated-later");
            return;
        } else if let Some(gname) = self
            .live(&addr)
            .into_iter()
            .filter(|i| *i != id && self.conns[*i].dynamic)
            .find_map(|i| self.conns[i].group.clone())
        {
            // a further connection of an already instantiated dynamic neighbour: it is that neighbour
            self.rep
                .count("setup:second-connection-of-dynamic-neighbour");
            // which group that was is only known as a best guess (overlapping prefixes): the
            // recorded one (its prefix may be gone meanwhile) or any group that contains the address
            let containing: BTreeSet<usize> = self
                .containing(&addr)
                .into_iter()
                .map(|(gi, _)| gi)
                .collect();
            self.groups
                .iter()
                .enumerate()
                .filter(|(gi, g)| g.name == gname || containing.contains(gi))
                .map(|(_, g)| expectation(&self.confed, None, Some(g), &addr))
                .collect()
        } else {
            let mut seen = BTreeSet::new();
            self.containing(&addr)
                .into_iter()
                .filter(|(gi, _)| seen.insert(*gi))
                .map(|(gi, _)| expectation(&self.confed, None, Some(&self.groups[gi]), &addr))
                .collect()
        };
        if cands.is_empty() {
            self.rep.count("unjudged:setup:no-configuration-applies");
            return;
        }
        self.rep.eval();
        // which group's parameters does the session carry?  The one it differs least from; fields
        // that identify a group weigh more (the expected AS most, it is copied verbatim from the
        // group) than a single add-path difference, so that one wrong detail does not make
        // another group look closer.
        let distance = |e: &Expect| -> usize {
            diff(e, &obs)
                .iter()
                .map(|(f, _)| {
                    if f.starts_with("addpath") {
                        1
                    } else if f == "expected-as" {
                        100
                    } else {
                        10
                    }
                })
                .sum()
        };
        let best = cands.iter().min_by_key(|e| distance(e)).unwrap().clone();
        let diffs = diff(&best, &obs);
        self.rep.count(&format!("setup:judged:{}", best.kind));
        self.rep.count(&format!(
            "setup:role:{}",
            best.role
                .map(|r| format!("{:?}", r))
                .unwrap_or_else(|| "unjudged".into())
        ));
        if best.kind != "static" {
            self.rep.nontrivial(self.case_hash() ^ 0x5e7);
        }
        if !best.addpath.is_empty() {
            self.rep.count("setup:with-addpath");
        }
        if matches!(best.gr, Some(Some(_))) {
            self.rep.count("setup:with-gr");
        }
        if best.llgr.as_ref().is_some_and(|l| !l.is_empty()) {
            self.rep.count("setup:with-llgr");
        }
        if !best.limits.is_empty() {
            self.rep.count("setup:with-prefix-limit");
        }
        if best.export.is_some() {
            self.rep.count("setup:with-export-policy");
        }
        if best.hold != Some(180) {
            self.rep.count("setup:with-hold-time");
        }
        if self.confed.is_some() {
            self.rep.count("setup:in-confederation");
        }
        for (what, n) in [
            ("role", best.role.is_none()),
            ("local-as", best.local_as.is_none()),
            ("hold-time", best.hold.is_none()),
            ("gr", best.gr.is_none()),
            ("llgr", best.llgr.is_none()),
            ("cluster-id", best.cluster.is_none()),
        ] {
            if n {
                self.rep.count(&format!("unjudged:setup:{}", what));
            }
        }
        if cands.len() > 1 {
            self.rep.count("overlap:several-groups-contain-the-address");
            let maxlen = cands.iter().map(|c| c.longest_prefix).max().unwrap_or(0);
            self.rep.count(if best.longest_prefix == maxlen {
                "overlap:group-of-longest-prefix"
            } else {
                "overlap:group-of-shorter-prefix"
            });
        }
        // a group that went through UpdatePeerGroup is involved (as the group of the neighbour or as
        // one of several overlapping candidates): that call is then part of the finding's identity
        let updated_group = cands.iter().any(|c| {
            c.group
                .as_ref()
                .is_some_and(|g| self.group_epoch.get(g).copied().unwrap_or(0) > 0)
        });
        let tag = if self.src.get(&addr).copied() == Some("update") && best.kind != "dynamic" {
            "update"
        } else if updated_group {
            "update-group"
        } else if best.kind == "dynamic" {
            self.loader_name()
        } else {
            self.src.get(&addr).copied().unwrap_or("?")
        };
        // ---- one root cause, one signature: does the session carry exactly what a known
        // omission of the re-configuration handlers would give?
        let mut folded: Option<(String, String)> = None;
        // differences that remain next to a folded finding (an independent local-AS problem)
        let mut rest: Vec<(String, String)> = Vec::new();
        let only_as = |d: &Vec<(String, String)>| {
            d.iter()
                .all(|(f, _)| f.starts_with("local-as/") || f.starts_with("open-as/"))
        };
        if !diffs.is_empty() && tag == "update" {
            if let Some(n) = self.statics.get(&addr) {
                let alt_d = diff(&expectation(&self.confed, Some(n), None, &addr), &obs);
                // (whatever still differs without the group is reported on its own)
                if n.group.is_some() && alt_d.len() < diffs.len() {
                    rest = alt_d;
                    folded = Some((
                        "C16/setup/group-not-inherited/update".into(),
                        "after UpdatePeer the neighbour carries exactly its own fields and nothing of its peer group any more".into(),
                    ));
                }
            }
        }
        if !diffs.is_empty() && tag == "update-group" {
            let alt_group = |g: &GroupGen| -> GroupGen {
                let mut a = g.clone();
                if let Some(g0) = self.groups0.iter().find(|x| x.name == g.name) {
                    a.c.fams = g0.c.fams.clone();
                    a.c.gr = g0.c.gr;
                }
                a
            };
            let alts: Vec<Expect> = if let Some(n) = self.statics.get(&addr) {
                n.group
                    .as_ref()
                    .and_then(|name| self.groups.iter().find(|g| &g.name == name))
                    .map(|g| {
                        vec![expectation(
                            &self.confed,
                            Some(n),
                            Some(&alt_group(g)),
                            &addr,
                        )]
                    })
                    .unwrap_or_default()
            } else {
                cands
                    .iter()
                    .filter_map(|c| c.group.as_ref())
                    .filter_map(|name| self.groups.iter().find(|g| &g.name == name))
                    .map(|g| expectation(&self.confed, None, Some(&alt_group(g)), &addr))
                    .collect()
            };
            let alt_ds: Vec<Vec<(String, String)>> = alts
                .iter()
                .map(|a| diff(a, &obs))
                .filter(|d| only_as(d) && d.len() < diffs.len())
                .collect();
            if let Some(d) = alt_ds.into_iter().min_by_key(|d| d.len()) {
                rest = d;
                folded = Some((
                    "C16/setup/group-families-and-capabilities-not-updated/update-group".into(),
                    "after UpdatePeerGroup a new session of the group still carries the group's previous families / add-path / GR / LLGR".into(),
                ));
            }
        }
        if let Some((sig, what)) = &folded {
            let w = self.witness(vec![
                ("address", Json::s(addr.to_string())),
                ("role", Json::s(role_name(role))),
                (
                    "all_differences",
                    Json::strs(diffs.iter().map(|d| d.1.clone())),
                ),
                ("expected", Json::s(format!("{:x?}", best))),
                ("observed", Json::s(format!("{:x?}", obs))),
            ]);
            self.rep.violation(sig, what, w);
        }
        let diffs: Vec<(String, String)> = if folded.is_some() { rest } else { diffs };
        for (field, detail) in &diffs {
            let w = self.witness(vec![
                ("address", Json::s(addr.to_string())),
                ("role", Json::s(role_name(role))),
                ("difference", Json::s(detail.clone())),
                (
                    "all_differences",
                    Json::strs(diffs.iter().map(|d| d.1.clone())),
                ),
                ("expected", Json::s(format!("{:x?}", best))),
                ("observed", Json::s(format!("{:x?}", obs))),
            ]);
            // the kind of neighbour / the loader are part of the identity only where the cause can depend on them
            let from = |g: bool| if g { "from-group" } else { "own" };
            let sig = if field.starts_with("local-as/")
                || field.starts_with("role/")
                || field.starts_with("open-as/")
            {
                if tag.starts_with("update") {
                    format!("C16/setup/{}/{}", field, tag)
                } else {
                    format!("C16/setup/{}", field)
                }
            } else if field == "hold-time" {
                format!("C16/setup/{}/{}/{}", field, from(best.hold_from_group), tag)
            } else if [
                "families",
                "addpath",
                "addpath-send-max",
                "graceful-restart",
                "llgr",
            ]
            .contains(&field.as_str())
            {
                format!("C16/setup/{}/{}/{}", field, from(best.fams_from_group), tag)
            } else {
                format!("C16/setup/{}/{}", field, tag)
            };
            self.rep.violation(
                &sig,
                &format!("session parameter differs from the neighbour's / peer group's configuration: {}", detail),
                w,
            );
        }
        if self.rep.want_sample() && best.kind != "static" && diffs.is_empty() {
            let w = self.witness(vec![
                ("address", Json::s(addr.to_string())),
                ("expected", Json::s(format!("{:x?}", best))),
                ("observed", Json::s(format!("{:x?}", obs))),
            ]);
            self.rep.sample(w);
        }
        // (a folded finding: drive the session with what the daemon actually expects)
        self.conns[id].peer_as = if folded.is_some() {
            obs.expected_as
        } else {
            best.peer_as
        };
        self.conns[id].group = best.group.clone();
        self.conns[id].tag = tag;
        self.conns[id].group_epoch = best
            .group
            .as_ref()
            .and_then(|g| self.group_epoch.get(g).copied())
            .unwrap_or(0);
        // ---- drive the OPEN exchange from the client side
        let drive = match drive {
            Drive::Establish if obs.open_hold < 30 => Drive::Silent,
            Drive::BadAs if self.conns[id].peer_as == 0 => Drive::Silent,
            d => d,
        };
        if drive != Drive::Silent {
            self.drive(id, drive).await;
        }
    }

    async fn drive(&mut self, id: usize, drive: Drive) {
        let addr = self.conns[id].addr;
        let role = self.conns[id].role;
        let want_as = self.conns[id].peer_as;
        let my_as = match drive {
            Drive::BadAs => {
                if want_as == 64999 {
                    64998
                } else {
                    64999
                }
            }
            _ => {
                if want_as != 0 {
                    want_as
                } else {
                    65077
                }
            }
        };
        let rid = match addr {
            IpAddr::V4(a) => u32::from(Ipv4Addr::new(
                10,
                a.octets()[1],
                a.octets()[2],
                a.octets()[3],
            )),
            IpAddr::V6(_) => u32::from(Ipv4Addr::new(10, 0, 0, 6)),
        };
        let mut caps: Vec<packet::Capability> = self.conns[id]
            .open_mp
            .iter()
            .map(|f| packet::Capability::MultiProtocol(Family::new((*f >> 16) as u16, *f as u8)))
            .collect();
        caps.push(packet::Capability::FourOctetAsNumber(my_as));
        // the remote end advertises GR / LLGR for the same families (restart / stale time 1 s), so
        // that the helper side of the daemon is really in force when the session ends
        let fam = |f: &u32| Family::new((*f >> 16) as u16, *f as u8);
        if drive == Drive::Establish {
            if let Some((fl, fams)) = self.conns[id].open_gr.clone() {
                if !fams.is_empty() {
                    let n = fl & 0x4 != 0 && id % 3 != 0;
                    caps.push(packet::Capability::GracefulRestart {
                        flags: if n { 0x4 } else { 0 },
                        restart_time: 1,
                        families: fams.iter().map(|f| (fam(f), 0x80)).collect(),
                    });
                    self.conns[id].gr_negotiated = true;
                    self.conns[id].n_bit = n;
                }
            }
            if !self.conns[id].open_llgr.is_empty() {
                let v: Vec<(Family, u8, u32)> = self.conns[id].open_llgr.iter().map(|f| (fam(f), 0u8, 1u32)).collect();
                caps.push(packet::Capability::LongLivedGracefulRestart(v));
                self.conns[id].gr_negotiated = true;
            }
        }
        let mut out = BytesMut::new();
        let mut codec = bgp::PeerCodec::new();
        let open = bgp::Message::Open(bgp::Open {
            as_number: my_as,
            holdtime: HoldTime::new(3600).unwrap(),
            router_id: rid,
            capability: caps,
        });
        if codec.encode_to(&open, &mut out).is_err()
            || codec.encode_to(&bgp::Message::Keepalive, &mut out).is_err()
        {
            self.rep.count("harness:client-open-not-encodable");
            return;
        }
        self.conns[id].driven = true;
        self.log(format!(
            "  #{} client sends OPEN as={} + KEEPALIVE ({:?})",
            id, my_as, drive
        ));
        {
            use tokio::io::AsyncWriteExt as _;
            let Some(c) = self.conns[id].client.as_mut() else {
                return;
            };
            if c.write_all(&out).await.is_err() {
                self.rep.count("harness:client-write-failed");
            }
        }
        self.rep.eval();
        match self.read_msg(id).await {
            Rd::Msg(bgp::ParsedMessage::Keepalive) => {
                if drive == Drive::BadAs {
                    let w = self.witness(vec![
                        ("address", Json::s(addr.to_string())),
                        ("configured_as", Json::Int(want_as as i128)),
                        ("sent_as", Json::Int(my_as as i128)),
                    ]);
                    let sig = if self.conns[id].tag.starts_with("update") {
                        format!(
                            "C16/setup/expected-as/other-as-accepted/{}",
                            self.conns[id].tag
                        )
                    } else {
                        "C16/setup/expected-as/other-as-accepted".to_string()
                    };
                    self.rep.violation(
                        &sig,
                        "an OPEN from an AS other than the configured one was acknowledged",
                        w,
                    );
                } else {
                    self.rep.count("drive:open-acknowledged");
                }
                // Established (or gone) -- by state
                let t0 = std::time::Instant::now();
                loop {
                    self.refresh();
                    if self.conns[id].done {
                        self.rep.count("drive:ended-after-open");
                        break;
                    }
                    if self.conns[id].arb.lock().unwrap().state(role)
                        == crate::fsm::State::Established
                    {
                        self.rep.count("drive:established");
                        self.conns[id].established = true;
                        if self.conns[id].gr_negotiated {
                            self.rep.count("drive:established-with-gr-or-llgr");
                        }
                        break;
                    }
                    if t0.elapsed() > WATCHDOG {
                        self.abort("watchdog: session neither Established nor finished after OPEN + KEEPALIVE");
                        return;
                    }
                    tokio::time::sleep(Duration::from_millis(1)).await;
                }
            }
            Rd::Msg(bgp::ParsedMessage::Notification(n)) => {
                let bad_as = matches!(n, packet::Notification::OpenBadPeerAs);
                match drive {
                    Drive::BadAs if bad_as => self.rep.count("drive:wrong-as-rejected"),
                    Drive::Establish if bad_as => {
                        let w = self.witness(vec![
                            ("address", Json::s(addr.to_string())),
                            ("configured_as", Json::Int(want_as as i128)),
                        ]);
                        self.rep.violation(
                            "C16/setup/expected-as/configured-as-rejected",
                            "an OPEN from the configured AS was rejected as a bad peer AS",
                            w,
                        );
                    }
                    _ => self.rep.count("drive:other-notification"),
                }
                self.await_done(id).await;
            }
            Rd::Eof | Rd::Reset => {
                self.rep.count("drive:closed-without-reply");
                self.await_done(id).await;
            }
            Rd::Timeout => {
                self.abort("watchdog: no reply to the client's OPEN");
                return;
            }
            Rd::Msg(_) | Rd::Bad(_) => self.rep.count("drive:unexpected-reply"),
        }
        // a collision may have ended the other connection of this neighbour: settle by state
        let sibs: Vec<usize> = self.live(&addr).into_iter().filter(|i| *i != id).collect();
        if !self.conns[id].done && !sibs.is_empty() {
            for s in sibs {
                if self.conns[s].driven {
                    // both went through an OPEN exchange: exactly one survives; this one did
                    self.rep.count("drive:collision-other-ends");
                    self.await_done(s).await;
                    self.check_cleanup(addr, s).await;
                }
            }
        }
        if self.conns[id].done {
            self.check_cleanup(addr, id).await;
        }
    }

    /// a connection's task has finished: the dynamic-cleanup clause
    async fn check_cleanup(&mut self, addr: IpAddr, ended: usize) {
        for i in self.refresh() {
            if i != ended {
                let _ = i;
            }
        }
        let live = !self.live(&addr).is_empty();
        let present = self.global.read().await.peers.contains_key(&addr);
        self.rep.eval();
        let shape = if self.conns[ended].had_sibling {
            "two-connections"
        } else {
            "single-connection"
        };
        if self.statics.contains_key(&addr) {
            self.rep.count("cleanup:static-checked");
            if !present {
                let w = self.witness(vec![("address", Json::s(addr.to_string()))]);
                self.rep.violation(
                    &format!("C16/dynamic-cleanup/configured-neighbour-removed/{}", shape),
                    "a statically configured neighbour disappeared from Global.peers when a connection ended",
                    w,
                );
            }
        } else if !live {
            // did this end start GR / LLGR helper mode?  (statement: the entry goes with the last
            // connection, helper or not -- judged here; what happens when the timers run out is not)
            let c = &self.conns[ended];
            let helper = c.established
                && c.gr_negotiated
                && match c.end_kind {
                    "tcp-reset" | "tcp-close" => true,
                    "cease-notification" => c.n_bit || c.open_gr.is_none(),
                    _ => false,
                };
            if c.established && c.gr_negotiated {
                self.rep.count(&format!("cleanup:dynamic-checked:gr-negotiated:{}", if c.end_kind.is_empty() { "told-by-the-daemon" } else { c.end_kind }));
            }
            if helper {
                self.rep.count("cleanup:dynamic-checked:after-gr-helper-start");
            }
            let shape = if helper { format!("{}/gr-helper-started", shape) } else { shape.to_string() };
            self.rep
                .count(&format!("cleanup:dynamic-checked:{}", shape));
            self.rep.nontrivial(self.case_hash() ^ 0xc1ea);
            if present {
                let w = self.witness(vec![
                    ("address", Json::s(addr.to_string())),
                    ("ended_connection", Json::Int(self.conns[ended].id as i128)),
                ]);
                self.rep.violation(
                    &format!("C16/dynamic-cleanup/entry-remains/{}", shape),
                    "a dynamic neighbour's entry is still in Global.peers after its last connection's task finished",
                    w,
                );
                // the left-over entry would be taken for a fresh dynamic neighbour by everything that
                // follows: the history ends here
                self.tainted = true;
            }
        } else {
            self.rep.count(if present {
                "unjudged:cleanup:entry-present-while-other-connection-alive"
            } else {
                "unjudged:cleanup:entry-gone-while-other-connection-alive"
            });
        }
    }

    /// the connections of `addr` are expected to end now (disable / delete): wait for their tasks
    async fn await_all(&mut self, addr: IpAddr) {
        for i in self.live(&addr) {
            if self.aborted {
                return;
            }
            if self.await_done(i).await {
                self.check_cleanup(addr, i).await;
            }
        }
    }

    async fn op_disconnect(&mut self, i: usize) {
        self.op_disconnect_how(i, 0).await;
    }

    /// how: 0 = RST, 1 = FIN, 2 = NOTIFICATION Cease/Administrative Shutdown then FIN,
    /// 3 = NOTIFICATION Cease/Hard Reset then FIN (2 and 3 only on an Established session)
    async fn op_disconnect_how(&mut self, i: usize, how: u8) {
        use tokio::io::AsyncWriteExt as _;
        let addr = self.conns[i].addr;
        let how = if self.conns[i].established { how } else { how.min(1) };
        let kind = match how {
            0 => "tcp-reset",
            1 => "tcp-close",
            2 => "cease-notification",
            _ => "hard-reset-notification",
        };
        self.conns[i].end_kind = kind;
        self.log(format!("disconnect #{} ({})", i, kind));
        self.rep.count("op:disconnect");
        self.rep.count(&format!("end:{}", kind));
        if how >= 2 {
            let n = if how == 2 { packet::Notification::CeaseAdminShutdown } else { packet::Notification::CeaseHardReset };
            let mut out = BytesMut::new();
            if bgp::PeerCodec::new().encode_to(&bgp::Message::Notification(n), &mut out).is_ok() {
                if let Some(c) = self.conns[i].client.as_mut() {
                    let _ = c.write_all(&out).await;
                }
            }
        }
        if how >= 1 {
            if let Some(c) = self.conns[i].client.as_mut() {
                let _ = c.shutdown().await;
            }
            // the daemon reads the NOTIFICATION / EOF and ends the session; then our end goes too
            if self.await_done(i).await {
                self.conns[i].client = None;
                self.check_cleanup(addr, i).await;
            }
            return;
        }
        self.conns[i].client = None; // close (RST: linger 0)
        if self.await_done(i).await {
            self.check_cleanup(addr, i).await;
        }
    }

    async fn op_disable(&mut self, addr: IpAddr) {
        self.log(format!("disable {}", addr));
        self.rep.count("op:disable");
        let r = self
            .svc
            .disable_peer(tonic::Request::new(api::DisablePeerRequest {
                address: addr.to_string(),
                communication: String::new(),
            }))
            .await;
        if r.is_ok() {
            if let Some(n) = self.statics.get_mut(&addr) {
                n.admin_down = true;
            }
            self.await_all(addr).await;
        }
    }

    async fn op_enable(&mut self, addr: IpAddr) {
        self.log(format!("enable {}", addr));
        self.rep.count("op:enable");
        let r = self
            .svc
            .enable_peer(tonic::Request::new(api::EnablePeerRequest {
                address: addr.to_string(),
            }))
            .await;
        if r.is_ok() {
            if let Some(n) = self.statics.get_mut(&addr) {
                n.admin_down = false;
            }
        }
    }

    async fn op_delete(&mut self, addr: IpAddr, wait: bool) {
        self.log(format!(
            "delete {}{}",
            addr,
            if wait {
                ""
            } else {
                " (next steps before its sessions have ended)"
            }
        ));
        self.rep.count("op:delete");
        let r = self
            .svc
            .delete_peer(tonic::Request::new(api::DeletePeerRequest {
                address: addr.to_string(),
                interface: String::new(),
            }))
            .await;
        if r.is_ok() {
            if let Some(n) = self.statics.remove(&addr) {
                self.removed.push(n);
            }
            if wait {
                self.await_all(addr).await;
            }
        }
    }

    async fn op_add(&mut self, n: NeighGen) {
        self.log(format!("add neighbour {} {:?}", n.addr, n));
        self.rep.count("op:add");
        let r = self
            .svc
            .add_peer(tonic::Request::new(api::AddPeerRequest {
                peer: Some(neigh_api(&n)),
            }))
            .await;
        match r {
            Ok(_) => {
                self.src.insert(n.addr, "grpc");
                let ep = n
                    .group
                    .as_ref()
                    .and_then(|g| self.group_epoch.get(g).copied())
                    .unwrap_or(0);
                self.member_epoch.insert(n.addr, ep);
                self.statics.insert(n.addr, n);
            }
            Err(e) => {
                self.rep.count("op:add-refused");
                self.log(format!("  add refused: {}", e.message()));
                // an entry (e.g. an instantiated dynamic neighbour) may legitimately be in the way
            }
        }
    }

    /// UpdatePeer: re-configure an existing neighbour, then look at the session that exists afterwards
    async fn op_update(&mut self, new: NeighGen, fields: Vec<&'static str>, rng: &mut Rng) {
        let addr = new.addr;
        let Some(old) = self.statics.get(&addr).cloned() else {
            return;
        };
        let before: Vec<usize> = self.live(&addr);
        self.log(format!(
            "update neighbour {} fields {:?} -> {:?}",
            addr, fields, new
        ));
        self.rep.count("op:update");
        self.rep.count(if before.is_empty() {
            "update:while-idle"
        } else {
            "update:while-connected"
        });
        let r = self
            .svc
            .update_peer(tonic::Request::new(api::UpdatePeerRequest {
                peer: Some(neigh_api(&new)),
                do_soft_reset_in: false,
            }))
            .await;
        if let Err(e) = r {
            self.rep.count("update:refused");
            for f in &fields {
                self.rep.count(&format!("update:refused:{}", f));
            }
            self.log(format!("  update refused: {}", e.message()));
            return;
        }
        for f in &fields {
            self.rep.count(&format!("update:field:{}", f));
        }
        self.rep.count(if fields.len() > 1 {
            "update:several-fields"
        } else {
            "update:one-field"
        });
        // ---- administrative state: decided from the peer table right away
        let actual_down = self
            .global
            .read()
            .await
            .peers
            .get(&addr)
            .map(|p| p.admin_down);
        let mut model = new.clone();
        if let Some(actual) = actual_down {
            if new.admin_down != old.admin_down {
                self.rep.eval();
                self.rep.count("update:admin-state-judged");
                if actual != new.admin_down {
                    let w = self.witness(vec![
                        ("address", Json::s(addr.to_string())),
                        ("configured_admin_down", Json::Bool(new.admin_down)),
                        ("actual_admin_down", Json::Bool(actual)),
                    ]);
                    self.rep.violation(
                        "C16/setup/admin-state/update",
                        "UpdatePeer returned successfully but the neighbour's administrative state is not the configured one",
                        w,
                    );
                }
            }
            // later admission judgements follow what the daemon holds (one root cause, one signature)
            model.admin_down = actual;
        }
        self.src.insert(addr, "update");
        let ep = model
            .group
            .as_ref()
            .and_then(|g| self.group_epoch.get(g).copied())
            .unwrap_or(0);
        self.member_epoch.insert(addr, ep);
        self.statics.insert(addr, model.clone());
        // ---- sessions that existed: told to shut down (the handler's own decision) or kept
        for i in before {
            if self.aborted {
                return;
            }
            let role = self.conns[i].role;
            let told = {
                let a = self.conns[i].arb.lock().unwrap();
                match role {
                    Role::Active => a.active_close_tx.is_none(),
                    Role::Passive => a.passive_close_tx.is_none(),
                }
            };
            if told {
                self.rep.count("update:session-torn-down");
                if self.await_done(i).await {
                    self.check_cleanup(addr, i).await;
                }
            } else {
                // the statement does not say which changes must bounce a running session
                self.rep.count("update:session-kept");
            }
        }
        if self.aborted || model.admin_down {
            return;
        }
        // ---- the first session after the update carries the new configuration
        let live = self.live(&addr);
        let mut role = if rng.chance(7, 10) {
            Role::Passive
        } else {
            Role::Active
        };
        if live.iter().any(|i| self.conns[*i].role == role) {
            let other = if role == Role::Passive {
                Role::Active
            } else {
                Role::Passive
            };
            if live.iter().any(|i| self.conns[*i].role == other) {
                let i = *live.iter().find(|i| self.conns[**i].role == role).unwrap();
                self.op_disconnect(i).await;
            } else {
                role = other;
            }
        }
        if self.aborted {
            return;
        }
        self.rep.count("update:probe-session");
        let drive = if rng.chance(1, 3) {
            Drive::Establish
        } else {
            Drive::Silent
        };
        self.op_connect(addr, role, drive, None, true).await;
    }

    /// UpdatePeerGroup, then a new dynamic neighbour of that group
    async fn op_update_group(
        &mut self,
        gi: usize,
        c: Common,
        fields: Vec<&'static str>,
        rng: &mut Rng,
    ) {
        let mut g = self.groups[gi].clone();
        g.c = c;
        self.log(format!(
            "update group {} fields {:?} -> {:?}",
            g.name, fields, g.c
        ));
        self.rep.count("op:update-group");
        let r = self
            .svc
            .update_peer_group(tonic::Request::new(api::UpdatePeerGroupRequest {
                peer_group: Some(group_api(&g)),
                do_soft_reset_in: false,
            }))
            .await;
        if let Err(e) = r {
            self.rep.count("update-group:refused");
            self.log(format!("  update refused: {}", e.message()));
            return;
        }
        for f in &fields {
            self.rep.count(&format!("update-group:field:{}", f));
        }
        *self.group_epoch.entry(g.name.clone()).or_insert(0) += 1;
        self.groups[gi] = g;
        // a fresh dynamic neighbour of this group (an address inside one of its prefixes with nothing going on)
        let cand: Vec<IpAddr> = self
            .universe
            .iter()
            .copied()
            .filter(|a| {
                !self.statics.contains_key(a)
                    && self.live(a).is_empty()
                    && self.groups[gi].prefixes.iter().any(|p| ref_contains(p, a))
            })
            .collect();
        if let Some(a) = cand.first().copied() {
            self.rep.count("update-group:probe-session");
            let role = if rng.chance(7, 10) {
                Role::Passive
            } else {
                Role::Active
            };
            self.op_connect(a, role, Drive::Silent, None, true).await;
        }
    }

    async fn op_prefix(&mut self, gi: usize, p: PrefixGen, add: bool) {
        let name = self.groups[gi].name.clone();
        self.log(format!(
            "{} dynamic prefix {} group {}",
            if add { "add" } else { "delete" },
            p.text,
            name
        ));
        self.rep.count(if add {
            "op:add-prefix"
        } else {
            "op:delete-prefix"
        });
        if add {
            let r = self
                .svc
                .add_dynamic_neighbor(tonic::Request::new(api::AddDynamicNeighborRequest {
                    dynamic_neighbor: Some(api::DynamicNeighbor {
                        prefix: p.text.clone(),
                        peer_group: name,
                    }),
                }))
                .await;
            if r.is_ok() {
                self.groups[gi].prefixes.push(p);
            }
        } else {
            let r = self
                .svc
                .delete_dynamic_neighbor(tonic::Request::new(api::DeleteDynamicNeighborRequest {
                    prefix: p.text.clone(),
                    peer_group: name,
                }))
                .await;
            if r.is_ok() {
                self.groups[gi].prefixes.retain(|x| x.text != p.text);
            }
        }
    }

    /// delete + re-add while a connection of the old neighbour is still winding down
    async fn op_replace_race(&mut self, addr: IpAddr, role: Role) {
        let Some(n) = self.statics.get(&addr).cloned() else {
            return;
        };
        self.rep.count("op:replace-while-connected");
        // whatever this leaves behind (see the probe below) is not described by the model:
        // the history ends with this step and the wind-down
        self.last_op_done = true;
        let pair = match self.make_pair(addr, role).await {
            Ok(p) => p,
            Err(e) => {
                self.abort(&format!(
                    "harness: cannot build a loopback connection: {}",
                    e
                ));
                return;
            }
        };
        let old = self.live(&addr);
        self.op_delete(addr, false).await;
        self.op_add(n).await;
        self.op_connect(addr, role, Drive::Silent, Some(pair), false)
            .await;
        for i in old {
            if self.aborted {
                return;
            }
            if self.await_done(i).await {
                self.check_cleanup(addr, i).await;
            }
        }
        // now everything is quiescent again: a further connection in that direction is judged
        if !self.aborted && !self.tainted {
            self.refresh();
            if matches!(self.admission(&addr, role), Adm::Refuse(_)) {
                self.rep.count("replace-while-connected:duplicate-probed");
                self.probe_tag = Some("after-neighbour-replaced-while-connected");
                self.op_connect(addr, role, Drive::Silent, None, true).await;
                self.probe_tag = None;
            } else {
                self.rep
                    .count("replace-while-connected:probe-not-judgeable");
            }
        }
    }
}

/// change one field (mostly) or several of a neighbour's / group's common part
fn mutate_common(
    rng: &mut Rng,
    c: &mut Common,
    for_group: bool,
    v6: bool,
    confed: bool,
    fields: &mut Vec<&'static str>,
) {
    let n = if rng.chance(7, 10) {
        1
    } else {
        rng.range(2, 4)
    };
    for _ in 0..n {
        match rng.below(13) {
            0 | 1 => {
                let mut h = Some(*rng.pick(&[6u32, 21, 60, 150, 900, 40000]));
                if rng.chance(1, 6) {
                    h = None;
                }
                if h != c.hold {
                    c.hold = h;
                    fields.push("hold-time");
                }
            }
            2 => {
                let a = *rng.pick(&[65002u32, 65001, 65003, 65100, 4_200_000_001]);
                if a != c.peer_as {
                    c.peer_as = a;
                    fields.push("peer-as");
                }
            }
            3 => {
                if !confed {
                    c.local_as = if c.local_as == 0 { 65050 } else { 0 };
                    fields.push("local-as");
                }
            }
            4 => {
                c.passive = !c.passive;
                fields.push("passive");
            }
            5 => {
                c.fams = if rng.chance(1, 5) {
                    vec![]
                } else {
                    gen_fams(rng, v6, !for_group)
                };
                c.gr = None;
                fields.push("families");
            }
            6 | 11 | 12 => {
                if !c.fams.is_empty() {
                    let k = rng.usize(c.fams.len());
                    if rng.chance(1, 3) {
                        c.fams[k].rx = !c.fams[k].rx;
                        fields.push("addpath-receive");
                    } else {
                        // a different non-zero value keeps the capability the same
                        c.fams[k].send_max = match c.fams[k].send_max {
                            0 => 4,
                            4 => 16,
                            _ => {
                                if rng.bool() {
                                    4
                                } else {
                                    0
                                }
                            }
                        };
                        fields.push("addpath-send-max");
                    }
                }
            }
            7 => {
                if !c.fams.is_empty() {
                    if c.gr.is_some() && rng.bool() {
                        c.gr = None;
                        for f in c.fams.iter_mut() {
                            f.gr = false;
                        }
                    } else {
                        c.gr = Some((*rng.pick(&[7u16, 333, 2000]), rng.bool()));
                        for f in c.fams.iter_mut() {
                            f.gr = rng.bool();
                        }
                        let k = rng.usize(c.fams.len());
                        c.fams[k].gr = true;
                    }
                    fields.push("graceful-restart");
                }
            }
            8 => {
                if !c.fams.is_empty() {
                    let k = rng.usize(c.fams.len());
                    c.fams[k].llgr = match c.fams[k].llgr {
                        None => Some(4321),
                        Some(4321) => Some(99),
                        Some(_) => None,
                    };
                    fields.push("llgr");
                }
            }
            9 => {
                if !for_group {
                    for f in c.fams.iter_mut() {
                        if f.fam == Family::IPV4 || f.fam == Family::IPV6 {
                            f.limit = match f.limit {
                                None => Some(55),
                                Some(55) => Some(77_777),
                                Some(_) => None,
                            };
                            if !fields.contains(&"prefix-limits") {
                                fields.push("prefix-limits");
                            }
                        }
                    }
                }
            }
            _ => {
                // the handler documents these as not changeable through an update
                if rng.bool() {
                    c.rs_client = !c.rs_client;
                    fields.push("route-server-client");
                } else {
                    c.rr_client = !c.rr_client;
                    if !c.rr_client {
                        c.cluster_id = None;
                    }
                    fields.push("route-reflector-client");
                }
            }
        }
    }
}

fn gen_update(rng: &mut Rng, old: &NeighGen, confed: bool) -> (NeighGen, Vec<&'static str>) {
    let mut n = old.clone();
    let mut fields: Vec<&'static str> = Vec::new();
    match rng.below(8) {
        0 => {
            n.admin_down = !n.admin_down;
            fields.push("admin-state");
        }
        1 => {
            n.export = match &n.export {
                None => Some((rng.bool(), vec![POLICIES[rng.usize(3)].to_string()])),
                Some((rej, names)) if names.len() < 2 => Some((
                    !*rej,
                    vec![POLICIES[0].to_string(), POLICIES[2].to_string()],
                )),
                Some(_) => None,
            };
            fields.push("export-policy");
        }
        _ => mutate_common(rng, &mut n.c, false, n.addr.is_ipv6(), confed, &mut fields),
    }
    if n.group.is_none() && n.c.peer_as == 0 {
        n.c.peer_as = 65002;
    }
    (n, fields)
}

// ------------------------------------------------------------------ one configuration + one history

async fn run_scenario(
    cfg: &CfgGen,
    rng: &mut Rng,
    rep: &mut Report,
    n_ops: usize,
    trace: bool,
    index: u64,
) {
    let mut w = match build_world(cfg, rep, trace, index).await {
        Ok(w) => w,
        Err(e) => {
            rep.inconclusive(&format!(
                "harness: generated configuration not loadable: {}",
                e
            ));
            return;
        }
    };
    w.rep.count("configurations");
    w.rep.count(&format!("loader:{}", w.loader_name()));
    if trace {
        eprintln!("== configuration ({}):\n{}", w.loader_name(), w.cfg_text);
    }
    // every address once, first
    let mut first: Vec<IpAddr> = w.universe.clone();
    rng.shuffle(&mut first);
    let mut step = 0usize;
    while step < n_ops && !w.aborted && !w.tainted && !w.last_op_done {
        step += 1;
        // connections the daemon's own active-connect tasks may have produced are not part of the history
        while let Ok(s) = w.active_rx.try_recv() {
            drop(s);
            w.rep.count("harness:own-active-connect-succeeded");
        }
        let k = rng.below(114);
        let live: Vec<usize> = (0..w.conns.len()).filter(|i| !w.conns[*i].done).collect();
        let statics: Vec<IpAddr> = w.statics.keys().copied().collect();
        if k < 52 || first.len() > n_ops.saturating_sub(step) {
            let addr = match first.pop() {
                Some(a) => a,
                None => {
                    // lean towards addresses that already have something going on
                    if !live.is_empty() && rng.chance(1, 3) {
                        w.conns[*rng.pick(&live)].addr
                    } else {
                        *rng.pick(&w.universe)
                    }
                }
            };
            let role = if rng.chance(7, 10) {
                Role::Passive
            } else {
                Role::Active
            };
            let drive = match rng.below(10) {
                0..=5 => Drive::Silent,
                6..=8 => Drive::Establish,
                _ => Drive::BadAs,
            };
            w.op_connect(addr, role, drive, None, true).await;
        } else if k < 68 {
            if !live.is_empty() {
                // sessions with GR / LLGR in force are ended more often, and in every way
                let gr: Vec<usize> = live.iter().copied().filter(|i| w.conns[*i].established && w.conns[*i].gr_negotiated).collect();
                let i = if !gr.is_empty() && rng.bool() { *rng.pick(&gr) } else { *rng.pick(&live) };
                let how = *rng.pick(&[0u8, 0, 1, 1, 2, 2, 3]);
                w.op_disconnect_how(i, how).await;
            }
        } else if k < 74 {
            let addr = if !statics.is_empty() && rng.chance(4, 5) {
                *rng.pick(&statics)
            } else {
                *rng.pick(&w.universe)
            };
            w.op_disable(addr).await;
        } else if k < 80 {
            let addr = if !statics.is_empty() && rng.chance(4, 5) {
                *rng.pick(&statics)
            } else {
                *rng.pick(&w.universe)
            };
            w.op_enable(addr).await;
        } else if k < 85 {
            let addr = if !statics.is_empty() && rng.chance(4, 5) {
                *rng.pick(&statics)
            } else {
                *rng.pick(&w.universe)
            };
            w.op_delete(addr, true).await;
        } else if k < 91 {
            // re-add a deleted neighbour (possibly changed), or a new one on a free address
            let n = if !w.removed.is_empty() && rng.chance(3, 4) {
                let i = rng.usize(w.removed.len());
                let mut n = w.removed.remove(i);
                if rng.bool() {
                    n.c.hold = Some(*rng.pick(&[9u32, 45, 300]));
                    n.admin_down = rng.chance(1, 4);
                }
                Some(n)
            } else {
                let free: Vec<IpAddr> = w
                    .universe
                    .iter()
                    .copied()
                    .filter(|a| !w.statics.contains_key(a))
                    .collect();
                if free.is_empty() {
                    None
                } else {
                    let a = *rng.pick(&free);
                    let group = if !w.groups.is_empty() && rng.bool() {
                        Some(rng.pick(&w.groups).name.clone())
                    } else {
                        None
                    };
                    let mut c =
                        gen_common(rng, false, a.is_ipv6(), w.confed.is_some(), group.is_some());
                    if group.is_none() && c.peer_as == 0 {
                        c.peer_as = 65002;
                    }
                    Some(NeighGen {
                        addr: a,
                        c,
                        group,
                        admin_down: rng.chance(1, 5),
                        export: None,
                    })
                }
            };
            if let Some(n) = n {
                if !w.statics.contains_key(&n.addr) {
                    w.op_add(n).await;
                }
            }
        } else if k < 95 {
            // replace a configured neighbour while one of its connections is alive
            let cand: Vec<usize> = live
                .iter()
                .copied()
                .filter(|i| {
                    w.statics
                        .get(&w.conns[*i].addr)
                        .is_some_and(|n| !n.admin_down)
                        && !w.conns[*i].dynamic
                })
                .collect();
            if !cand.is_empty() {
                let i = *rng.pick(&cand);
                let (a, r) = (w.conns[i].addr, w.conns[i].role);
                w.op_replace_race(a, r).await;
            }
        } else if k >= 100 && k < 110 {
            if !statics.is_empty() {
                let a = *rng.pick(&statics);
                let old = w.statics.get(&a).cloned().unwrap();
                let (new, fields) = gen_update(rng, &old, w.confed.is_some());
                if !fields.is_empty() {
                    w.op_update(new, fields, rng).await;
                }
            }
        } else if k >= 110 {
            if !w.groups.is_empty() {
                let gi = rng.usize(w.groups.len());
                let mut c = w.groups[gi].c.clone();
                let mut fields = Vec::new();
                mutate_common(rng, &mut c, true, false, w.confed.is_some(), &mut fields);
                if !fields.is_empty() {
                    w.op_update_group(gi, c, fields, rng).await;
                }
            }
        } else if !w.groups.is_empty() {
            let gi = rng.usize(w.groups.len());
            if !w.groups[gi].prefixes.is_empty() && rng.bool() {
                let p = rng.pick(&w.groups[gi].prefixes).clone();
                w.op_prefix(gi, p, false).await;
            } else {
                let base = *rng.pick(&w.universe);
                let (v6, bits) = addr_bits(&base);
                let len = if v6 {
                    *rng.pick(&[0u8, 1, 64, 127, 128])
                } else if rng.chance(1, 8) {
                    rng.range(0, 8) as u8
                } else {
                    rng.range(9, 32) as u8
                };
                let p = prefix_of(v6, bits, len);
                if !w.groups[gi].prefixes.iter().any(|x| x.text == p.text) {
                    w.op_prefix(gi, p, true).await;
                }
            }
        }
    }
    // ---- wind down: every connection closes, then the peer table must be the configured one
    if w.tainted {
        w.rep.count("histories-ended-at-an-admission-violation");
        return;
    }
    if !w.aborted {
        w.log("close everything".into());
        let live: Vec<usize> = (0..w.conns.len()).filter(|i| !w.conns[*i].done).collect();
        for i in live {
            if w.aborted {
                break;
            }
            if !w.conns[i].done {
                w.op_disconnect(i).await;
            }
        }
    }
    if !w.aborted {
        let keys: BTreeSet<IpAddr> = w.global.read().await.peers.keys().copied().collect();
        let want: BTreeSet<IpAddr> = w.statics.keys().copied().collect();
        w.rep.eval();
        w.rep.count("final-peer-table-checked");
        if keys != want {
            let extra: Vec<String> = keys.difference(&want).map(|a| a.to_string()).collect();
            let missing: Vec<String> = want.difference(&keys).map(|a| a.to_string()).collect();
            let wit = w.witness(vec![
                ("left_over", Json::strs(extra.clone())),
                ("missing", Json::strs(missing.clone())),
            ]);
            if !extra.is_empty() {
                w.rep.violation("C16/dynamic-cleanup/entries-left-at-the-end", "after every connection ended Global.peers still holds entries that are not configured neighbours", wit);
            } else {
                w.rep.violation("C16/dynamic-cleanup/configured-neighbour-missing-at-the-end", "after every connection ended a configured neighbour is missing from Global.peers", wit);
            }
        }
    }
}

// ------------------------------------------------------------------ GR / LLGR / send-max mirror (daemon side of the capability half)

fn mk_context() -> Arc<std::sync::Mutex<PeerContext>> {
    let fsm = crate::fsm::PeerFsm::new(
        u32::from(router_id()),
        GLOBAL_AS,
        vec![],
        90,
        0,
        FnvHashMap::default(),
    );
    Arc::new(std::sync::Mutex::new(PeerContext {
        conn_arbiter: Arc::new(std::sync::Mutex::new(ConnArbiter::new(fsm))),
        active_connect_cancel_tx: None,
        active_connect_join_handle: None,
        gr_state: crate::gr::GrState::new(),
        gr_restart_timer: None,
        llgr_family_timers: FnvHashMap::default(),
        rtc_state: crate::rtc::RtcState::new(),
        rtc_eor_timer: None,
    }))
}

fn wire_caps(caps: &[packet::Capability]) -> Option<Vec<packet::Capability>> {
    let msg = bgp::Message::Open(bgp::Open {
        as_number: 65000,
        holdtime: HoldTime::new(90).unwrap(),
        router_id: 0x0101_0101,
        capability: caps.to_vec(),
    });
    let mut buf = BytesMut::new();
    bgp::PeerCodec::new().encode_to(&msg, &mut buf).ok()?;
    match bgp::PeerCodec::new().try_parse(&mut buf) {
        Ok(Some(bgp::ParsedMessage::Open(o))) => Some(o.capability),
        _ => None,
    }
}

fn gen_gr_caps(rng: &mut Rng, uni: &[Family]) -> Vec<packet::Capability> {
    let mut v = Vec::new();
    for f in uni {
        if rng.chance(3, 4) {
            v.push(packet::Capability::MultiProtocol(*f));
        }
    }
    let n_gr = *rng.pick(&[0usize, 1, 1, 1, 1, 2]);
    for _ in 0..n_gr {
        let mut fams: Vec<(Family, u8)> = Vec::new();
        for f in uni {
            if rng.chance(3, 5) {
                fams.push((*f, *rng.pick(&[0u8, 0x80])));
                if rng.chance(1, 12) {
                    fams.push((*f, 0));
                }
            }
        }
        v.push(packet::Capability::GracefulRestart {
            flags: rng.below(16) as u8,
            restart_time: *rng.pick(&[0u16, 1, 120, 4095]),
            families: fams,
        });
    }
    let n_l = *rng.pick(&[0usize, 1, 1, 1, 1, 2]);
    for _ in 0..n_l {
        let mut fams: Vec<(Family, u8, u32)> = Vec::new();
        for f in uni {
            if rng.chance(3, 5) {
                fams.push((
                    *f,
                    *rng.pick(&[0u8, 0x80]),
                    *rng.pick(&[0u32, 0, 1, 600, 0xff_ffff]),
                ));
                if rng.chance(1, 8) {
                    fams.push((*f, 0, *rng.pick(&[0u32, 77])));
                }
            }
        }
        v.push(packet::Capability::LongLivedGracefulRestart(fams));
    }
    let n_ap = *rng.pick(&[0usize, 1, 1, 2]);
    for _ in 0..n_ap {
        let mut e: Vec<(Family, u8)> = Vec::new();
        for f in uni {
            if rng.chance(3, 5) {
                e.push((*f, *rng.pick(&[1u8, 2, 3, 3])));
                if rng.chance(1, 8) {
                    e.push((*f, *rng.pick(&[1u8, 2, 3])));
                }
            }
        }
        v.push(packet::Capability::AddPath(e));
    }
    rng.shuffle(&mut v);
    v
}

/// per family: advertised by every capability instance / by some instance (duplicates are ambiguous)
fn gr_adv(c: &[packet::Capability], f: Family) -> (bool, bool) {
    let lists: Vec<bool> = c
        .iter()
        .filter_map(|x| {
            if let packet::Capability::GracefulRestart { families, .. } = x {
                Some(families.iter().any(|(ff, _)| *ff == f))
            } else {
                None
            }
        })
        .collect();
    (
        !lists.is_empty() && lists.iter().all(|x| *x),
        lists.iter().any(|x| *x),
    )
}

/// (advertised with a non-zero time in every instance and entry, advertised at all)
fn llgr_adv(c: &[packet::Capability], f: Family) -> (bool, bool) {
    let mut inst = 0;
    let mut all = true;
    let mut any = false;
    for x in c {
        if let packet::Capability::LongLivedGracefulRestart(v) = x {
            inst += 1;
            let es: Vec<u32> = v
                .iter()
                .filter(|(ff, _, _)| *ff == f)
                .map(|(_, _, t)| *t)
                .collect();
            if es.is_empty() || es.iter().any(|t| *t == 0) {
                all = false;
            }
            if !es.is_empty() {
                any = true;
            }
        }
    }
    (inst > 0 && all, any)
}

fn caps_json(c: &[packet::Capability]) -> Json {
    Json::strs(c.iter().map(|x| format!("{:?}", x)))
}

fn gr_mirror_part(rep: &mut Report, rng: &mut Rng, n: u64) {
    let tables: TableHandle = Arc::new(TableManager::new(1));
    let table = fam_table();
    let any_addr = IpAddr::V4(Ipv4Addr::new(192, 0, 2, 1));
    for _ in 0..n {
        let k = rng.range(1, 4) as usize;
        let mut idx: Vec<usize> = (0..table.len()).collect();
        rng.shuffle(&mut idx);
        let uni: Vec<Family> = idx[..k].iter().map(|i| table[*i].0).collect();
        let l = gen_gr_caps(rng, &uni);
        let r = gen_gr_caps(rng, &uni);
        let (Some(lw), Some(rw)) = (wire_caps(&l), wire_caps(&r)) else {
            rep.count("mirror:wire-skipped");
            continue;
        };
        let mut sl = PeerSession::new_for_test(any_addr, mk_context(), tables.clone());
        sl.local_cap = l.clone();
        let mut sr = PeerSession::new_for_test(any_addr, mk_context(), tables.clone());
        sr.local_cap = r.clone();
        // each end: own list as configured, the other's as decoded from its OPEN
        let res = guard(|| {
            (
                sl.negotiate_gr(&rw),
                sr.negotiate_gr(&lw),
                sl.negotiate_llgr(&rw),
                sr.negotiate_llgr(&lw),
            )
        });
        rep.eval();
        rep.count("mirror:gr-llgr-pairs");
        let (gl, gr, ll, lr) = match res {
            Ok(x) => x,
            Err(p) => {
                rep.violation(
                    &format!("C16/panic/{}:{}", p.location, panic_class(&p.message)),
                    &p.message,
                    Json::obj(vec![("L", caps_json(&l)), ("R", caps_json(&r))]),
                );
                continue;
            }
        };
        let set = |v: Option<Vec<Family>>| -> BTreeSet<u32> {
            v.unwrap_or_default().into_iter().map(fid).collect()
        };
        let gls = set(gl.as_ref().map(|g| g.families.clone()));
        let grs = set(gr.as_ref().map(|g| g.families.clone()));
        let lls = set(ll
            .as_ref()
            .map(|g| g.families.iter().map(|(f, _)| *f).collect()));
        let lrs = set(lr
            .as_ref()
            .map(|g| g.families.iter().map(|(f, _)| *f).collect()));
        rep.nontrivial(fnv64(format!("{:?}|{:?}", l, r).as_bytes()));
        let wit = |what: &str| {
            Json::obj(vec![
                ("what", Json::s(what)),
                ("L", caps_json(&l)),
                ("R", caps_json(&r)),
                ("gr_at_L", Json::s(format!("{:x?}", gls))),
                ("gr_at_R", Json::s(format!("{:x?}", grs))),
                ("llgr_at_L", Json::s(format!("{:x?}", lls))),
                ("llgr_at_R", Json::s(format!("{:x?}", lrs))),
            ])
        };
        let dup_gr = |c: &[packet::Capability]| {
            c.iter()
                .filter(|x| matches!(x, packet::Capability::GracefulRestart { .. }))
                .count()
                > 1
        };
        let dup_llgr = |c: &[packet::Capability]| {
            c.iter()
                .filter(|x| matches!(x, packet::Capability::LongLivedGracefulRestart(_)))
                .count()
                > 1
                || c.iter().any(|x| {
                    if let packet::Capability::LongLivedGracefulRestart(v) = x {
                        let mut s = BTreeSet::new();
                        v.iter().any(|(f, _, _)| !s.insert(fid(*f)))
                    } else {
                        false
                    }
                })
        };
        if gls != grs {
            rep.violation(
                if dup_gr(&l) || dup_gr(&r) {
                    "C16/mirror/gr-family-set/duplicate-capability"
                } else {
                    "C16/mirror/gr-family-set"
                },
                "graceful restart is in force for different families at the two ends",
                wit("gr sets differ"),
            );
        }
        if lls != lrs {
            rep.violation(
                if dup_llgr(&l) || dup_llgr(&r) {
                    "C16/mirror/llgr-family-set/duplicate-entries"
                } else {
                    "C16/mirror/llgr-family-set"
                },
                "LLGR is in force for different families at the two ends",
                wit("llgr sets differ"),
            );
        }
        for f in &uni {
            let id = fid(*f);
            let (ld, lp) = gr_adv(&l, *f);
            let (rd, rp) = gr_adv(&r, *f);
            if ld && rd {
                rep.count("mirror:gr-inforce");
                if !gls.contains(&id) || !grs.contains(&id) {
                    rep.violation(
                        "C16/mirror/gr/not-in-force",
                        "a family both ends advertised in their GR capability is not in force",
                        wit(&format!("family {:#x}", id)),
                    );
                }
            } else if !(lp && rp) {
                if lp || rp {
                    rep.count("mirror:gr-one-sided");
                }
                if gls.contains(&id) || grs.contains(&id) {
                    rep.violation(
                        "C16/mirror/gr/one-sided",
                        "graceful restart in force for a family only one end advertised",
                        wit(&format!("family {:#x}", id)),
                    );
                }
            } else {
                rep.count("unjudged:mirror:gr-duplicate-capabilities");
            }
            let (ld, lp) = llgr_adv(&l, *f);
            let (rd, rp) = llgr_adv(&r, *f);
            if ld && rd {
                rep.count("mirror:llgr-inforce");
                if !lls.contains(&id) || !lrs.contains(&id) {
                    rep.violation("C16/mirror/llgr/not-in-force", "a family both ends advertised (non-zero stale time) in their LLGR capability is not in force", wit(&format!("family {:#x}", id)));
                }
            } else if !(lp && rp) {
                if lp || rp {
                    rep.count("mirror:llgr-one-sided");
                }
                if lls.contains(&id) || lrs.contains(&id) {
                    rep.violation(
                        "C16/mirror/llgr/one-sided",
                        "LLGR in force for a family only one end advertised",
                        wit(&format!("family {:#x}", id)),
                    );
                }
            } else {
                rep.count("unjudged:mirror:llgr-zero-time-or-duplicates");
            }
        }
        // ---- the FSM's send-max agrees with the negotiated codec
        let mut send_max: FnvHashMap<Family, usize> = FnvHashMap::default();
        for f in &uni {
            if rng.chance(1, 2) {
                send_max.insert(*f, *rng.pick(&[2usize, 4, 8]));
            }
        }
        let out = guard(|| {
            let mut fsm = crate::fsm::PeerFsm::new(
                u32::from(router_id()),
                GLOBAL_AS,
                l.clone(),
                90,
                0,
                send_max.clone(),
            );
            let mut outs = fsm.process(Role::Passive, crate::fsm::Input::Connected(false));
            outs.extend(fsm.process(
                Role::Passive,
                crate::fsm::Input::MessageReceived(bgp::Message::Open(bgp::Open {
                    as_number: 65002,
                    holdtime: HoldTime::new(90).unwrap(),
                    router_id: 0x0202_0202,
                    capability: rw.clone(),
                })),
            ));
            outs.extend(fsm.process(
                Role::Passive,
                crate::fsm::Input::MessageReceived(bgp::Message::Keepalive),
            ));
            outs
        });
        let Ok(outs) = out else { continue };
        let mut codec = None;
        let mut eff = None;
        for o in outs {
            match o {
                crate::fsm::PeerFsmOutput::Connection(
                    _,
                    crate::fsm::Output::SessionNegotiated(c),
                ) => codec = Some(c),
                crate::fsm::PeerFsmOutput::Connection(
                    _,
                    crate::fsm::Output::SessionEstablished { effective_max, .. },
                ) => eff = Some(effective_max),
                _ => {}
            }
        }
        let (Some(codec), Some(eff)) = (codec, eff) else {
            rep.count("mirror:fsm-not-established");
            continue;
        };
        rep.eval();
        rep.count("mirror:fsm-send-max-cases");
        for f in codec.families_iter().collect::<Vec<_>>() {
            let tx = codec.family_state(f).is_some_and(|s| s.addpath_tx);
            let want = if tx { send_max.get(&f).copied() } else { None };
            let got = eff.get(&f).copied();
            if tx && want.is_some() {
                rep.count("mirror:send-max-in-force");
            }
            if got != want {
                rep.violation(
                    if got.is_some() && !tx { "C16/mirror/send-max-without-negotiated-tx" } else { "C16/mirror/send-max-not-applied" },
                    "the FSM's effective send-max disagrees with the add-path send direction PeerCodec::negotiate put in force",
                    Json::obj(vec![
                        ("family", Json::s(format!("{:#x}", fid(f)))),
                        ("L", caps_json(&l)),
                        ("R_as_decoded", caps_json(&rw)),
                        ("configured_send_max", Json::s(format!("{:?}", send_max))),
                        ("negotiated_tx", Json::Bool(tx)),
                        ("effective_max", Json::s(format!("{:?}", got))),
                    ]),
                );
            }
        }
    }
}

// ------------------------------------------------------------------ concurrent part
//
// Real configuration changes (gRPC handlers) race with real connections being accepted.
// The two are made to overlap either by holding the global lock while both queue up behind
// it (what any other handler / session task does all the time) or by free-running them on a
// multi-thread runtime with jitter.  Judged only at quiescence (both calls returned), with
// clauses that hold for every linearisation:
//  (a) a neighbour that is admin-down at the end owns no registered connection that was never
//      told to shut down;
//  (b) a session of a neighbour that was deleted / replaced was told to shut down;
//  (c) an accepted session carries the parameters of a configuration that existed during the overlap.

#[derive(Clone, Copy, Debug, PartialEq)]
enum ConcKind {
    Disable,
    Enable,
    Delete,
    Add,
    Replace,
    DelPrefix,
    AddPrefix,
    MovePrefix,
}

struct ConcAccepted {
    role: Role,
    start: u64,
    end: u64,
    arb: Option<Arc<std::sync::Mutex<ConnArbiter>>>,
    done_rx: Option<tokio::sync::oneshot::Receiver<Option<(String, String)>>>,
    obs: Option<Observed>,
    client: Option<TcpStream>,
}

fn told_to_close(arb: &Arc<std::sync::Mutex<ConnArbiter>>, role: Role) -> bool {
    let a = arb.lock().unwrap();
    match role {
        Role::Active => a.active_close_tx.is_none(),
        Role::Passive => a.passive_close_tx.is_none(),
    }
}

async fn conc_pair(
    l4: &TcpListener,
    addr: IpAddr,
    role: Role,
) -> Result<(TcpStream, TcpStream), String> {
    match role {
        Role::Passive => {
            let la = l4.local_addr().map_err(|e| e.to_string())?;
            let mut last = String::new();
            for _ in 0..200 {
                let sock = TcpSocket::new_v4().map_err(|e| e.to_string())?;
                let shortage = |e: &std::io::Error| {
                    matches!(
                        e.kind(),
                        std::io::ErrorKind::AddrInUse | std::io::ErrorKind::AddrNotAvailable
                    )
                };
                if let Err(e) = sock.bind(SocketAddr::new(addr, 0)) {
                    if shortage(&e) {
                        last = e.to_string();
                        tokio::time::sleep(Duration::from_millis(500)).await;
                        continue;
                    }
                    return Err(format!("bind {}: {}", addr, e));
                }
                let (c, s) = tokio::join!(sock.connect(la), async {
                    tokio::time::timeout(Duration::from_secs(5), l4.accept()).await
                });
                let c = match c {
                    Ok(c) => c,
                    Err(e) if shortage(&e) => {
                        last = e.to_string();
                        tokio::time::sleep(Duration::from_millis(500)).await;
                        continue;
                    }
                    Err(e) => return Err(format!("connect from {}: {}", addr, e)),
                };
                let (s, _) = match s {
                    Ok(Ok(x)) => x,
                    _ => return Err("accept on the harness listener failed".into()),
                };
                crate::verif_hooks::no_time_wait(&c);
                crate::verif_hooks::no_time_wait(&s);
                return Ok((c, s));
            }
            Err(format!("no ephemeral port: {}", last))
        }
        Role::Active => {
            let l = crate::verif_hooks::bind_retry(SocketAddr::new(addr, 0))
                .await
                .map_err(|e| e.to_string())?;
            let la = l.local_addr().map_err(|e| e.to_string())?;
            let (d, c) = tokio::join!(crate::verif_hooks::connect_retry(la), async {
                tokio::time::timeout(Duration::from_secs(110), l.accept()).await
            });
            let d = d.map_err(|e| e.to_string())?;
            let (c, _) = match c {
                Ok(Ok(x)) => x,
                _ => return Err("accept on the harness listener failed".into()),
            };
            crate::verif_hooks::no_time_wait(&c);
            crate::verif_hooks::no_time_wait(&d);
            Ok((c, d))
        }
    }
}

/// read one message from the client end (watchdog => None/"timeout")
async fn conc_read_open(client: &mut TcpStream) -> Result<bgp::Open, &'static str> {
    let mut buf = BytesMut::with_capacity(4096);
    loop {
        match bgp::PeerCodec::new().try_parse(&mut buf) {
            Ok(Some(bgp::ParsedMessage::Open(o))) => return Ok(o),
            Ok(Some(_)) => return Err("not-open"),
            Ok(None) => {}
            Err(_) => return Err("undecodable"),
        }
        match tokio::time::timeout(WATCHDOG, client.readable()).await {
            Err(_) => return Err("timeout"),
            Ok(Err(_)) => return Err("closed"),
            Ok(Ok(())) => {}
        }
        match client.try_read_buf(&mut buf) {
            Ok(0) => return Err("closed"),
            Ok(_) => {}
            Err(ref e) if e.kind() == std::io::ErrorKind::WouldBlock => {}
            Err(_) => return Err("closed"),
        }
    }
}

async fn conc_round(rng: &mut Rng, rep: &mut Report, index: u64, trace: bool) {
    let kinds = [
        ConcKind::Disable,
        ConcKind::Disable,
        ConcKind::Disable,
        ConcKind::Enable,
        ConcKind::Delete,
        ConcKind::Delete,
        ConcKind::Add,
        ConcKind::Replace,
        ConcKind::Replace,
        ConcKind::DelPrefix,
        ConcKind::AddPrefix,
        ConcKind::MovePrefix,
    ];
    let kind = *rng.pick(&kinds);
    let mode = rng.below(6);
    let addr = IpAddr::V4(Ipv4Addr::new(
        127,
        rng.range(1, 254) as u8,
        rng.below(256) as u8,
        rng.range(1, 254) as u8,
    ));
    // ---- configuration
    let mut n1 = NeighGen {
        addr,
        c: gen_common(rng, false, false, false, false),
        group: None,
        admin_down: kind == ConcKind::Enable,
        export: None,
    };
    if n1.c.peer_as == 0 {
        n1.c.peer_as = 65002;
    }
    let mut n2 = n1.clone();
    n2.admin_down = false;
    n2.c.hold = Some(*rng.pick(&[33u32, 77, 1234]));
    n2.c.peer_as = *rng.pick(&[65002u32, 65003, 65100]);
    let mut g0 = GroupGen {
        name: "g0".into(),
        c: gen_common(rng, true, false, false, false),
        prefixes: vec![],
    };
    let mut g1 = GroupGen {
        name: "g1".into(),
        c: gen_common(rng, true, false, false, false),
        prefixes: vec![],
    };
    g1.c.hold = Some(*rng.pick(&[44u32, 88]));
    let (_, bits) = addr_bits(&addr);
    let plen = rng.range(9, 32) as u8;
    let pfx = prefix_of(false, bits, plen);
    let dynamic = matches!(
        kind,
        ConcKind::DelPrefix | ConcKind::AddPrefix | ConcKind::MovePrefix
    );
    // a Delete round may leave the address covered by a dynamic prefix (clause (b) is then not judged)
    let covered = kind == ConcKind::Delete && rng.chance(1, 4);
    if matches!(kind, ConcKind::DelPrefix | ConcKind::MovePrefix) || covered {
        g0.prefixes.push(pfx.clone());
    }
    let (active_tx, _active_rx) = mpsc::unbounded_channel::<TcpStream>();
    let (ktx, _krx) = mpsc::unbounded_channel();
    let (btx, _brx) = mpsc::unbounded_channel();
    let tables: TableHandle = Arc::new(TableManager::new(1));
    let global: GlobalHandle = Arc::new(tokio::sync::RwLock::new(Global::new(ktx, btx)));
    let svc = Arc::new(GrpcService::new(
        Arc::new(tokio::sync::Notify::new()),
        active_tx.clone(),
        global.clone(),
        tables.clone(),
    ));
    let mut steps: Vec<String> = Vec::new();
    let load: Result<(), String> = async {
        svc.start_bgp(tonic::Request::new(api::StartBgpRequest {
            global: Some(api::Global {
                asn: GLOBAL_AS,
                router_id: router_id().to_string(),
                listen_port: -1,
                ..Default::default()
            }),
        }))
        .await
        .map_err(|e| e.to_string())?;
        for g in [&g0, &g1] {
            svc.add_peer_group(tonic::Request::new(api::AddPeerGroupRequest {
                peer_group: Some(group_api(g)),
            }))
            .await
            .map_err(|e| e.to_string())?;
            for p in &g.prefixes {
                svc.add_dynamic_neighbor(tonic::Request::new(api::AddDynamicNeighborRequest {
                    dynamic_neighbor: Some(api::DynamicNeighbor {
                        prefix: p.text.clone(),
                        peer_group: g.name.clone(),
                    }),
                }))
                .await
                .map_err(|e| e.to_string())?;
            }
        }
        if !dynamic && kind != ConcKind::Add {
            svc.add_peer(tonic::Request::new(api::AddPeerRequest {
                peer: Some(neigh_api(&n1)),
            }))
            .await
            .map_err(|e| e.to_string())?;
        }
        Ok(())
    }
    .await;
    if let Err(e) = load {
        rep.inconclusive(&format!(
            "harness: concurrent round configuration not loadable: {}",
            e
        ));
        return;
    }
    let l4 =
        match crate::verif_hooks::bind_retry(SocketAddr::new(IpAddr::V4(Ipv4Addr::LOCALHOST), 0))
            .await
        {
            Ok(l) => l,
            Err(e) => {
                rep.inconclusive(&format!("harness: bind: {}", e));
                return;
            }
        };
    // ---- the connections (built before anything races)
    let roles: Vec<Role> = match rng.below(4) {
        0 => vec![Role::Active],
        1 => vec![Role::Passive, Role::Active],
        _ => vec![Role::Passive],
    };
    let mut pairs = Vec::new();
    for r in &roles {
        match conc_pair(&l4, addr, *r).await {
            Ok(p) => pairs.push((*r, p)),
            Err(e) => {
                rep.inconclusive(&format!(
                    "harness: cannot build a loopback connection: {}",
                    e
                ));
                return;
            }
        }
    }
    rep.count("conc:rounds");
    rep.count(&format!("conc:kind:{:?}", kind));
    rep.count(&format!("conc:mode:{}", mode));
    let seq = Arc::new(std::sync::atomic::AtomicU64::new(1));
    // ---- somebody else owns the global lock for a moment (modes 0..3)
    enum Busy {
        W(tokio::sync::OwnedRwLockWriteGuard<Global>),
        R(tokio::sync::OwnedRwLockReadGuard<Global>),
        None,
    }
    let busy = match mode {
        0 | 1 => Busy::W(global.clone().write_owned().await),
        2 | 3 => Busy::R(global.clone().read_owned().await),
        _ => Busy::None,
    };
    let spawn_accepts = |pairs: Vec<(Role, (TcpStream, TcpStream))>| {
        let mut hs = Vec::new();
        for (role, (client, server)) in pairs {
            let (g, t, atx, seq) = (
                global.clone(),
                tables.clone(),
                active_tx.clone(),
                seq.clone(),
            );
            hs.push(tokio::spawn(async move {
                let start = seq.fetch_add(1, Ordering::SeqCst);
                let res = accept_connection(&g, &t, server, role).await;
                let mut out = ConcAccepted {
                    role,
                    start,
                    end: 0,
                    arb: None,
                    done_rx: None,
                    obs: None,
                    client: Some(client),
                };
                if let Some(session) = res {
                    out.obs = Some(Observed {
                        role: Some(session.export_ctx.role),
                        local_as_session: session.export_ctx.local_asn,
                        confed_id: session.export_ctx.confederation_id,
                        cluster: session.cluster_id,
                        limits: session
                            .prefix_counters
                            .iter()
                            .map(|(f, (max, _))| (fid(*f), *max))
                            .collect(),
                        export: session.state.export_policy.load_full().map(|a| {
                            (
                                a.disposition == table::Disposition::Reject,
                                a.policies.iter().map(|p| p.name.to_string()).collect(),
                            )
                        }),
                        ..Default::default()
                    });
                    // exactly what Global::serve does with an accepted connection
                    let arb = session.conn_arbiter.clone();
                    let (done_tx, done_rx) =
                        tokio::sync::oneshot::channel::<Option<(String, String)>>();
                    let jh = tokio::spawn(async move {
                        let r = std::panic::AssertUnwindSafe(session.run(g, atx))
                            .catch_unwind()
                            .await;
                        let _ = done_tx.send(if r.is_err() { Some(take_panic()) } else { None });
                    });
                    match role {
                        Role::Active => arb.lock().unwrap().active_join_handle = Some(jh),
                        Role::Passive => arb.lock().unwrap().passive_join_handle = Some(jh),
                    }
                    out.arb = Some(arb);
                    out.done_rx = Some(done_rx);
                }
                out.end = seq.fetch_add(1, Ordering::SeqCst);
                out
            }));
        }
        hs
    };
    let spawn_config = || {
        let (svc, seq) = (svc.clone(), seq.clone());
        let (n1c, n2c, pfxc) = (n1.clone(), n2.clone(), pfx.clone());
        tokio::spawn(async move {
            let start = seq.fetch_add(1, Ordering::SeqCst);
            let a = n1c.addr.to_string();
            let mut ok = Vec::new();
            match kind {
                ConcKind::Disable => ok.push(
                    svc.disable_peer(tonic::Request::new(api::DisablePeerRequest {
                        address: a,
                        communication: String::new(),
                    }))
                    .await
                    .is_ok(),
                ),
                ConcKind::Enable => ok.push(
                    svc.enable_peer(tonic::Request::new(api::EnablePeerRequest { address: a }))
                        .await
                        .is_ok(),
                ),
                ConcKind::Delete => ok.push(
                    svc.delete_peer(tonic::Request::new(api::DeletePeerRequest {
                        address: a,
                        interface: String::new(),
                    }))
                    .await
                    .is_ok(),
                ),
                ConcKind::Add => ok.push(
                    svc.add_peer(tonic::Request::new(api::AddPeerRequest {
                        peer: Some(neigh_api(&n1c)),
                    }))
                    .await
                    .is_ok(),
                ),
                ConcKind::Replace => {
                    ok.push(
                        svc.delete_peer(tonic::Request::new(api::DeletePeerRequest {
                            address: a,
                            interface: String::new(),
                        }))
                        .await
                        .is_ok(),
                    );
                    ok.push(
                        svc.add_peer(tonic::Request::new(api::AddPeerRequest {
                            peer: Some(neigh_api(&n2c)),
                        }))
                        .await
                        .is_ok(),
                    );
                }
                ConcKind::DelPrefix => ok.push(
                    svc.delete_dynamic_neighbor(tonic::Request::new(
                        api::DeleteDynamicNeighborRequest {
                            prefix: pfxc.text.clone(),
                            peer_group: "g0".into(),
                        },
                    ))
                    .await
                    .is_ok(),
                ),
                ConcKind::AddPrefix => ok.push(
                    svc.add_dynamic_neighbor(tonic::Request::new(api::AddDynamicNeighborRequest {
                        dynamic_neighbor: Some(api::DynamicNeighbor {
                            prefix: pfxc.text.clone(),
                            peer_group: "g0".into(),
                        }),
                    }))
                    .await
                    .is_ok(),
                ),
                ConcKind::MovePrefix => {
                    ok.push(
                        svc.delete_dynamic_neighbor(tonic::Request::new(
                            api::DeleteDynamicNeighborRequest {
                                prefix: pfxc.text.clone(),
                                peer_group: "g0".into(),
                            },
                        ))
                        .await
                        .is_ok(),
                    );
                    ok.push(
                        svc.add_dynamic_neighbor(tonic::Request::new(
                            api::AddDynamicNeighborRequest {
                                dynamic_neighbor: Some(api::DynamicNeighbor {
                                    prefix: pfxc.text.clone(),
                                    peer_group: "g1".into(),
                                }),
                            },
                        ))
                        .await
                        .is_ok(),
                    );
                }
            }
            let end = seq.fetch_add(1, Ordering::SeqCst);
            (start, end, ok)
        })
    };
    let jitter = Duration::from_micros(if rng.bool() { 0 } else { rng.range(0, 200) });
    let settle = Duration::from_micros(300 + rng.range(0, 300));
    let accept_first = matches!(mode, 0 | 2 | 4);
    let (accept_hs, config_h) = if accept_first {
        let a = spawn_accepts(pairs);
        tokio::time::sleep(if mode == 4 { jitter } else { settle }).await;
        let c = spawn_config();
        (a, c)
    } else {
        let c = spawn_config();
        tokio::time::sleep(if mode == 5 { jitter } else { settle }).await;
        let a = spawn_accepts(pairs);
        (a, c)
    };
    steps.push(format!(
        "{:?} of {} races with {} connection(s) {:?}; {} queued first{}",
        kind,
        addr,
        roles.len(),
        roles.iter().map(|r| role_name(*r)).collect::<Vec<_>>(),
        if accept_first {
            "accept"
        } else {
            "configuration call"
        },
        match mode {
            0 | 1 => ", both behind a holder of the global write lock",
            2 | 3 => ", both behind a holder of the global read lock",
            _ => ", free-running",
        }
    ));
    if mode < 4 {
        tokio::time::sleep(settle).await;
    }
    drop(busy);
    // ---- both sides finish
    let mut accepted: Vec<ConcAccepted> = Vec::new();
    for h in accept_hs {
        match tokio::time::timeout(WATCHDOG, h).await {
            Ok(Ok(a)) => accepted.push(a),
            Ok(Err(e)) => {
                if e.is_panic() {
                    let (loc, msg) = take_panic();
                    rep.violation(
                        &format!("C16/panic/{}:{}", loc, panic_class(&msg)),
                        &format!(
                            "accept_connection panicked while a configuration call ran: {}",
                            msg
                        ),
                        Json::strs(steps.clone()),
                    );
                }
                return;
            }
            Err(_) => {
                rep.inconclusive("watchdog: accept_connection did not return while racing with a configuration call");
                return;
            }
        }
    }
    let (cstart, cend, cok) = match tokio::time::timeout(WATCHDOG, config_h).await {
        Ok(Ok(x)) => x,
        Ok(Err(e)) => {
            if e.is_panic() {
                let (loc, msg) = take_panic();
                rep.violation(
                    &format!("C16/panic/{}:{}", loc, panic_class(&msg)),
                    &format!(
                        "configuration handler panicked while a connection was accepted: {}",
                        msg
                    ),
                    Json::strs(steps.clone()),
                );
            }
            return;
        }
        Err(_) => {
            rep.inconclusive(
                "watchdog: configuration call did not return while racing with accept_connection",
            );
            return;
        }
    };
    for a in &accepted {
        steps.push(format!(
            "accept_connection({}) {} (seq {}..{}), configuration call seq {}..{} ok={:?}",
            role_name(a.role),
            if a.arb.is_some() {
                "-> session"
            } else {
                "-> refused"
            },
            a.start,
            a.end,
            cstart,
            cend,
            cok
        ));
        if a.start < cend && cstart < a.end {
            rep.count("conc:overlapping-pairs");
            if mode < 4 {
                rep.count("conc:overlapping-pairs:behind-lock-holder");
            }
        } else {
            rep.count("conc:not-overlapping");
        }
        rep.count(if a.arb.is_some() {
            "conc:accepted"
        } else {
            "conc:refused"
        });
    }
    if trace {
        for s in &steps {
            eprintln!("  [{}] {}", index, s);
        }
    }
    // ---- quiescence: both calls have returned.  What is the configuration now?
    let (entry_arb, entry_admin_down, entry_dynamic, expected_as, send_max): (
        Option<Arc<std::sync::Mutex<ConnArbiter>>>,
        bool,
        bool,
        u32,
        BTreeMap<u32, usize>,
    ) = {
        let g = global.read().await;
        match g.peers.get(&addr) {
            Some(p) => {
                let ctx = p.context.lock().unwrap();
                let arb = ctx.conn_arbiter.clone();
                let sm = arb
                    .lock()
                    .unwrap()
                    .fsm()
                    .configured_send_max()
                    .iter()
                    .map(|(f, v)| (fid(*f), *v))
                    .collect();
                (
                    Some(arb),
                    p.admin_down,
                    p.config.delete_on_disconnected,
                    p.config.expected_remote_asn,
                    sm,
                )
            }
            None => (None, false, false, 0, BTreeMap::new()),
        }
    };
    let wit = |steps: &Vec<String>, extra: &str| {
        Json::obj(vec![
            ("round", Json::Int(index as i128)),
            ("steps", Json::strs(steps.clone())),
            ("neighbour", Json::s(format!("{:?}", n1))),
            (
                "replacement",
                Json::s(if kind == ConcKind::Replace {
                    format!("{:?}", n2)
                } else {
                    String::new()
                }),
            ),
            ("groups", Json::s(format!("{:?} {:?}", g0, g1))),
            ("detail", Json::s(extra)),
            (
                "replay",
                Json::s(format!(
                    "VERIF_SEED=<shard seed> VERIF_PART=concurrent VERIF_ONLY={} VERIF_TRACE=1 <e2 test binary> event::verif::c16::run --exact --nocapture (timing dependent)",
                    index
                )),
            ),
        ])
    };
    for a in accepted.iter_mut() {
        let Some(arb) = a.arb.clone() else {
            if let Some(c) = a.client.as_mut() {
                // refused: zero bytes
                let (bytes, how) = drain_to_eof(c).await;
                rep.eval();
                if how == "timeout" {
                    rep.inconclusive(
                        "watchdog: a refused connection was not closed (concurrent part)",
                    );
                } else if !bytes.is_empty() {
                    rep.violation(
                        "C16/refused-bytes/concurrent",
                        "a connection refused while the configuration changed received bytes",
                        wit(&steps, &hex(&bytes)),
                    );
                }
            }
            continue;
        };
        rep.eval();
        rep.nontrivial(fnv64(
            format!(
                "{:?}|{}|{}|{:?}|{}",
                kind,
                mode,
                role_name(a.role),
                n1,
                a.start < cend && cstart < a.end
            )
            .as_bytes(),
        ));
        let owner_current = entry_arb.as_ref().is_some_and(|e| Arc::ptr_eq(e, &arb));
        let told = told_to_close(&arb, a.role);
        let mut must_end = false;
        if !owner_current {
            // the neighbour this session belongs to was deleted (or replaced by a new one)
            must_end = true;
            rep.count("conc:judged:session-of-removed-neighbour");
            if !told {
                rep.violation(
                    &format!("C16/concurrent/session-of-removed-neighbour-not-closed/{:?}", kind),
                    "after DeletePeer returned, a session of the deleted neighbour is still registered and was never told to shut down",
                    wit(&steps, "close channel of the session's direction is still installed in its arbiter"),
                );
            }
        } else if entry_admin_down {
            must_end = true;
            rep.count("conc:judged:session-of-admin-down-neighbour");
            if !told {
                rep.violation(
                    &format!("C16/concurrent/admin-down-neighbour-has-registered-connection/{:?}", kind),
                    "after DisablePeer returned, the administratively down neighbour owns a registered connection that was never told to shut down",
                    wit(&steps, "admin_down is set and the close channel of the session's direction is still installed"),
                );
            }
        } else {
            rep.count("conc:judged:session-may-live");
        }
        if must_end {
            if told {
                // told to shut down: the task must end (state), watchdog = inconclusive
                if let Some(rx) = a.done_rx.as_mut() {
                    match tokio::time::timeout(WATCHDOG, rx).await {
                        Ok(r) => {
                            rep.count("conc:closed-session-ended");
                            if let Ok(Some((loc, msg))) = r {
                                rep.violation(
                                    &format!("C16/panic/{}:{}", loc, panic_class(&msg)),
                                    &format!("PeerSession::run panicked: {}", msg),
                                    wit(&steps, ""),
                                );
                            }
                            a.done_rx = None;
                        }
                        Err(_) => rep.inconclusive(
                            "watchdog: a session told to shut down did not end (concurrent part)",
                        ),
                    }
                }
            }
            continue;
        }
        // ---- (c) the parameters of a configuration that existed during the overlap
        let mut obs = a.obs.take().unwrap_or_default();
        obs.expected_as = expected_as;
        obs.send_max = send_max.clone();
        let open = match a.client.as_mut() {
            Some(c) => conc_read_open(c).await,
            None => Err("closed"),
        };
        match open {
            Ok(o) => fold_open(&mut obs, &o),
            Err("timeout") => {
                rep.inconclusive("watchdog: a session accepted during a configuration change did not emit its OPEN");
                continue;
            }
            Err(_) => {
                rep.count("unjudged:conc:no-open");
                continue;
            }
        }
        let cands: Vec<Expect> = match kind {
            ConcKind::Disable | ConcKind::Enable | ConcKind::Delete | ConcKind::Add => {
                let mut v = vec![expectation(&None, Some(&n1), None, &addr)];
                if entry_dynamic {
                    v = vec![expectation(&None, None, Some(&g0), &addr)];
                }
                v
            }
            ConcKind::Replace => vec![
                expectation(&None, Some(&n1), None, &addr),
                expectation(&None, Some(&n2), None, &addr),
            ],
            ConcKind::DelPrefix | ConcKind::AddPrefix => {
                vec![expectation(&None, None, Some(&g0), &addr)]
            }
            ConcKind::MovePrefix => vec![
                expectation(&None, None, Some(&g0), &addr),
                expectation(&None, None, Some(&g1), &addr),
            ],
        };
        rep.eval();
        rep.count("conc:judged:setup");
        let best = cands.iter().min_by_key(|e| diff(e, &obs).len()).unwrap();
        let d = diff(best, &obs);
        if cands.len() > 1 {
            rep.count("conc:setup:two-configurations-possible");
        }
        if let Some((field, detail)) = d.first() {
            rep.violation(
                &format!("C16/concurrent/setup-of-no-configuration/{}", field.split('/').next().unwrap_or("")),
                "a session accepted while the configuration changed carries parameters of none of the configurations that existed",
                wit(&steps, &format!("{}; all: {:?}; observed {:x?}", detail, d, obs)),
            );
        }
    }
    // ---- wind down: close the clients, every task ends, dynamic entries go away
    for a in accepted.iter_mut() {
        a.client = None;
    }
    for a in accepted.iter_mut() {
        if let Some(rx) = a.done_rx.as_mut() {
            if tokio::time::timeout(WATCHDOG, rx).await.is_err() {
                rep.inconclusive(
                    "watchdog: a session did not end after its client closed (concurrent part)",
                );
                return;
            }
        }
    }
    let g = global.read().await;
    rep.eval();
    match g.peers.get(&addr) {
        Some(p) if p.config.delete_on_disconnected => {
            rep.violation(
                "C16/dynamic-cleanup/entry-remains/concurrent",
                "a dynamic neighbour's entry is still there after all its connections ended",
                wit(&steps, ""),
            );
        }
        Some(_) => {
            if matches!(kind, ConcKind::Delete) {
                rep.violation(
                    "C16/concurrent/deleted-neighbour-still-configured",
                    "DeletePeer returned successfully but the neighbour is still in Global.peers",
                    wit(&steps, ""),
                );
            }
        }
        None => {
            if matches!(kind, ConcKind::Disable | ConcKind::Enable)
                || (matches!(kind, ConcKind::Add | ConcKind::Replace) && cok.last() == Some(&true))
            {
                rep.violation(
                    "C16/dynamic-cleanup/configured-neighbour-removed/concurrent",
                    "a configured neighbour disappeared from Global.peers",
                    wit(&steps, ""),
                );
            }
        }
    }
}

fn concurrent_part(rep: &mut Report, params: &Params) {
    let n = params.n(1_400, 10_000);
    let only = params.get("only").and_then(|s| s.parse::<u64>().ok());
    let trace = params.flag("trace");
    for i in 0..n {
        if !rep.in_budget() {
            break;
        }
        if let Some(o) = only {
            if o != i {
                continue;
            }
        }
        let mut r = Rng::new(
            (params.seed ^ 0xC16C)
                .wrapping_mul(1_000_003)
                .wrapping_add(i),
        );
        // real threads: the accept tasks and the configuration call run in parallel
        let rt = tokio::runtime::Builder::new_multi_thread()
            .worker_threads(3)
            .enable_all()
            .build()
            .expect("runtime");
        let res = std::panic::catch_unwind(std::panic::AssertUnwindSafe(|| {
            rt.block_on(conc_round(&mut r, rep, i, trace));
        }));
        rt.shutdown_background();
        if res.is_err() {
            let (loc, msg) = take_panic();
            rep.inconclusive(&format!(
                "harness panic in the concurrent part at {}: {}",
                loc, msg
            ));
        }
    }
}

#[test]
fn run() {
    let params = Params::from_args_env();
    let mut rep = Report::new("C16", &params);
    install_panic_hook();
    let mut rng = Rng::new(params.seed ^ 0xC16);
    let part = params.get("part").unwrap_or("all").to_string();
    if part == "all" || part == "seq" || part == "grmirror" {
        let rt = tokio::runtime::Builder::new_current_thread()
            .enable_all()
            .build()
            .expect("runtime");
        let n = params.n(40_000, 400_000);
        let mut r2 = rng.fork();
        // PeerSession::new_for_test creates (never polled) tokio timers
        let _enter = rt.enter();
        gr_mirror_part(&mut rep, &mut r2, n);
    }
    if part == "all" || part == "seq" || part == "accept" {
        let n = params.n(1_500, 20_000);
        let only = params.get("only").and_then(|s| s.parse::<u64>().ok());
        let trace = params.flag("trace");
        for i in 0..n {
            if !rep.in_budget() {
                break;
            }
            let mut r = Rng::new(
                (params.seed ^ 0xC16)
                    .wrapping_mul(1_000_003)
                    .wrapping_add(i),
            );
            let cfg = gen_cfg(&mut r);
            let n_ops = r.range(10, 30) as usize;
            if let Some(o) = only {
                if o != i {
                    continue;
                }
            }
            rep.extra.retain(|(k, _)| k != "last_configuration_index");
            // one runtime per history: whatever tasks a history leaves behind end with it
            let rt = tokio::runtime::Builder::new_current_thread()
                .enable_all()
                .build()
                .expect("runtime");
            let res = std::panic::catch_unwind(std::panic::AssertUnwindSafe(|| {
                rt.block_on(run_scenario(&cfg, &mut r, &mut rep, n_ops, trace, i));
            }));
            drop(rt);
            if res.is_err() {
                let (loc, msg) = take_panic();
                if loc.contains("verif/harness") || loc.contains("c16.rs") {
                    rep.inconclusive(&format!("harness panic at {}: {}", loc, msg));
                } else {
                    rep.violation(
                        &format!("C16/panic/{}:{}", loc, panic_class(&msg)),
                        &format!(
                            "panic while loading a configuration / accepting a connection: {}",
                            msg
                        ),
                        Json::obj(vec![
                            ("configuration", Json::s(cfg_toml(&cfg))),
                            ("loader", Json::s(format!("{:?}", cfg.loader))),
                            ("configuration_index", Json::Int(i as i128)),
                        ]),
                    );
                }
            }
        }
    }
    if part == "all" || part == "concurrent" {
        concurrent_part(&mut rep, &params);
    }
    let _ = rep.finish();
}
