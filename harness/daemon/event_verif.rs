//! Compiled inside the daemon crate as `crate::event::verif` under
//! cfg(all(test, osrg_rustybgp_verif)).  One sub-module per property, each
//! behind its own cfg flag (`--cfg verif_cNN`) so that modules can be built
//! and developed independently; ./check enables all flags listed in
//! /verif/harness/daemon/enabled.txt.
#![allow(unused_imports, dead_code)]
#[allow(unused)]
pub(crate) use crate::verif_common as common;

#[cfg(verif_c01)]
#[path = "/verif/harness/daemon/c01.rs"]
mod c01;

// the end-to-end part of C01 (real session loop); reuses the generators of c01.rs, so
// `verif_c01` has to be enabled with it
#[cfg(all(verif_c01e, not(verif_c01)))]
compile_error!("--cfg verif_c01e needs --cfg verif_c01 (c01e.rs uses the generators of c01.rs)");
#[cfg(verif_c01e)]
#[path = "/verif/harness/daemon/c01e.rs"]
mod c01e;

#[cfg(verif_c05)]
#[path = "/verif/harness/daemon/c05.rs"]
mod c05;

#[cfg(verif_c07)]
#[path = "/verif/harness/daemon/c07.rs"]
mod c07;

#[cfg(verif_c07)]
#[path = "/verif/harness/daemon/c07b.rs"]
mod c07b;

#[cfg(verif_c08)]
#[path = "/verif/harness/daemon/c08.rs"]
mod c08;

#[cfg(verif_c08)]
#[path = "/verif/harness/daemon/c08b.rs"]
mod c08b;

#[cfg(verif_c09)]
#[path = "/verif/harness/daemon/c09.rs"]
mod c09;

#[cfg(verif_c10)]
#[path = "/verif/harness/daemon/c10.rs"]
mod c10;

#[cfg(verif_c11)]
#[path = "/verif/harness/daemon/c11.rs"]
mod c11;

#[cfg(verif_c16)]
#[path = "/verif/harness/daemon/c16.rs"]
mod c16;

#[cfg(verif_c17)]
#[path = "/verif/harness/daemon/c17.rs"]
mod c17;

#[cfg(verif_c18)]
#[path = "/verif/harness/daemon/c18.rs"]
mod c18;

// C18 "stalled snapshot" scenarios at the BMP boundary: needs a hand-built Global, hence a child of
// `event`; under the same flag as c18 (c18.rs itself is also included by bmp::verif::c18b)
#[cfg(verif_c18)]
#[path = "/verif/harness/daemon/c18s.rs"]
mod c18s;

#[cfg(verif_c20)]
#[path = "/verif/harness/daemon/c20.rs"]
mod c20;
