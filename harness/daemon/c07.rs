//! C07 — Established only after a valid OPEN exchange; a collision leaves one
//! connection.
//!
//! Workload: the real `crate::fsm::PeerFsm` (raw) and the real
//! `event::ConnArbiter` wrapper (with one-shot close channels installed the way
//! `accept_connection` does, and the session-end protocol of `apply_disconnect`
//! emulated: close_tx = None + Input::Disconnected) are driven with every input
//! sequence up to a depth over the alphabet {Active,Passive} x {connect,
//! connect(restarting), acceptable OPEN (produced by the real parser), OPEN with
//! wrong AS, OPEN bytes the real parser must reject (identifier 0 / multicast /
//! broadcast, hold time 1 / 2), KEEPALIVE, UPDATE, NOTIFICATION cease / hard
//! reset / other, ROUTE-REFRESH, hold expiry, keepalive expiry, disconnect,
//! admin shutdown, update-sent}, for local-id {<,=,>} remote-id and three
//! hold-time pairs; then random sequences of length 30..200.
//!
//! Oracle: `reference()` below, a slot-per-role FSM written from the property
//! statement, evaluated on the *observed* previous states for every step
//! (lock-step), plus the clauses path / fsm-error / idle / at-most-one /
//! collision.  Only what the statement demands is a violation; legal-but-
//! unexpected behaviour (refusing to progress, spurious tear-down) is counted
//! under `unjudged:*`.
use super::super::{CloseReason, ConnArbiter};
use crate::fsm::{Input, Output, PeerFsm, PeerFsmOutput, Role, SessionDownReason, State};
use crate::verif_common::*;
use fnv::FnvHashMap;
use rustybgp_packet::Notification;
use rustybgp_packet::bgp::{self, Capability, Family, HoldTime};
use std::collections::BTreeMap;
use tokio::sync::oneshot;

const LOCAL_AS: u32 = 65001;
const REMOTE_AS: u32 = 65002;
const WRONG_AS: u32 = 65099;
const ACTIVE: usize = 0;
const PASSIVE: usize = 1;

fn role_of(i: usize) -> Role {
    if i == ACTIVE {
        Role::Active
    } else {
        Role::Passive
    }
}
fn idx_of(r: Role) -> usize {
    match r {
        Role::Active => ACTIVE,
        Role::Passive => PASSIVE,
    }
}
fn role_name(i: usize) -> &'static str {
    if i == ACTIVE { "A" } else { "P" }
}

// ------------------------------------------------------------------ alphabet

#[derive(Clone, Copy, PartialEq, Eq, Debug)]
enum Sym {
    Conn,
    ConnRestart,
    OpenOk,
    OpenBadAs,
    OpenWireBad,
    Ka,
    Upd,
    NotifCease,
    NotifHard,
    NotifOther,
    RouteRefresh,
    HoldExp,
    KaExp,
    Disc,
    Admin,
    UpdSent,
}
use Sym::*;

const SYMS: [Sym; 16] = [
    Conn,
    ConnRestart,
    OpenOk,
    OpenBadAs,
    OpenWireBad,
    Ka,
    Upd,
    NotifCease,
    NotifHard,
    NotifOther,
    RouteRefresh,
    HoldExp,
    KaExp,
    Disc,
    Admin,
    UpdSent,
];
const NSYM: usize = 32; // 2 roles x 16

impl Sym {
    fn name(self) -> &'static str {
        match self {
            Conn => "connect",
            ConnRestart => "connect-restarting",
            OpenOk => "open",
            OpenBadAs => "open-wrong-as",
            OpenWireBad => "open-rejected-by-parser",
            Ka => "keepalive",
            Upd => "update",
            NotifCease => "notification-cease",
            NotifHard => "notification-hard-reset",
            NotifOther => "notification-other",
            RouteRefresh => "route-refresh",
            HoldExp => "hold-expiry",
            KaExp => "keepalive-expiry",
            Disc => "disconnect",
            Admin => "admin-shutdown",
            UpdSent => "update-sent",
        }
    }
    /// name of the idle-clause cause (the statement's four causes)
    fn idle_cause(self) -> &'static str {
        match self {
            NotifCease | NotifHard | NotifOther => "notification",
            HoldExp => "hold-expiry",
            Disc | OpenWireBad => "disconnect",
            Admin => "admin-shutdown",
            _ => "other",
        }
    }
}

/// how many content variants a symbol has (the exhaustive part fans the LAST symbol of a
/// history out over them; inner steps and random histories rotate through them)
fn n_variants(cfg: &Cfg, sym: Sym) -> usize {
    match sym {
        OpenOk => cfg.open_ok_variants.len(),
        OpenBadAs => cfg.open_bad_as_variants.len(),
        OpenWireBad => cfg.wire_bad.len(),
        Upd => cfg.upd_variants.len(),
        NotifOther => cfg.notif_other_variants.len(),
        RouteRefresh => cfg.rr_variants.len(),
        _ => 1,
    }
}

fn decode(code: usize) -> (usize, Sym) {
    (code / 16, SYMS[code % 16])
}

// ------------------------------------------------------------------ configuration

struct Cfg {
    name: String,
    local_id: u32,
    remote_id: u32,
    local_hold: u16,
    remote_hold: u16,
    /// acceptable OPEN, as produced by the real encoder + parser + validate_message
    open_ok: bgp::Message,
    open_bad_as: bgp::Message,
    /// OPEN wire images the statement calls unacceptable (identifier / hold time)
    wire_bad: Vec<(&'static str, Vec<u8>)>,
    /// content variants of one message kind: which branch the FSM takes may depend on the
    /// content BEFORE it looks at the state; the statement's verdict does not
    rr_variants: Vec<(&'static str, bgp::Message)>,
    upd_variants: Vec<(&'static str, bgp::Message)>,
    open_ok_variants: Vec<(&'static str, bgp::Message)>,
    open_bad_as_variants: Vec<(&'static str, bgp::Message)>,
    notif_other_variants: Vec<(&'static str, bgp::Message)>,
}

/// ROUTE-REFRESH as it comes off the wire: AFI(2) subtype/reserved(1) SAFI(1), through the real parser
fn route_refresh_wire(afi: u16, subtype: u8, safi: u8) -> Vec<u8> {
    let mut v = vec![0xffu8; 16];
    v.extend_from_slice(&23u16.to_be_bytes());
    v.push(5);
    v.extend_from_slice(&afi.to_be_bytes());
    v.push(subtype);
    v.push(safi);
    v
}

/// an acceptable OPEN with other (still acceptable) contents
fn open_variant_wire(asn: u32, id: u32, hold: u16, four_octet: bool, extra_cap: bool) -> Vec<u8> {
    let mut caps = vec![Capability::MultiProtocol(Family::IPV4)];
    if four_octet {
        caps.push(Capability::FourOctetAsNumber(asn));
    }
    if extra_cap {
        caps.push(Capability::MultiProtocol(Family::IPV6));
        caps.push(Capability::EnhancedRouteRefresh);
    }
    let msg = bgp::Message::Open(bgp::Open {
        as_number: asn,
        holdtime: HoldTime::new(90).unwrap(),
        router_id: 0x0a00_0001,
        capability: caps,
    });
    let mut buf = bytes::BytesMut::with_capacity(128);
    bgp::PeerCodec::new().encode_to(&msg, &mut buf).expect("encode OPEN");
    let mut v = buf.to_vec();
    v[22..24].copy_from_slice(&hold.to_be_bytes());
    v[24..28].copy_from_slice(&id.to_be_bytes());
    v
}

fn local_caps() -> Vec<Capability> {
    vec![
        Capability::MultiProtocol(Family::IPV4),
        Capability::FourOctetAsNumber(LOCAL_AS),
        Capability::RouteRefresh,
        Capability::GracefulRestart {
            flags: 0,
            restart_time: 120,
            families: vec![(Family::IPV4, 0)],
        },
    ]
}

fn open_wire(asn: u32, id: u32, hold: u16) -> Vec<u8> {
    let msg = bgp::Message::Open(bgp::Open {
        as_number: asn,
        holdtime: HoldTime::new(90).unwrap(),
        router_id: 0x0a00_0001,
        capability: vec![
            Capability::MultiProtocol(Family::IPV4),
            Capability::FourOctetAsNumber(asn),
            Capability::RouteRefresh,
        ],
    });
    let mut buf = bytes::BytesMut::with_capacity(128);
    bgp::PeerCodec::new()
        .encode_to(&msg, &mut buf)
        .expect("encode OPEN");
    let mut v = buf.to_vec();
    // header 19 bytes, version 1, AS 2, hold time 2, identifier 4
    v[22..24].copy_from_slice(&hold.to_be_bytes());
    v[24..28].copy_from_slice(&id.to_be_bytes());
    v
}

/// What the driver does with bytes from the socket: try_parse + validate_message.
fn parse_like_driver(wire: &[u8]) -> Result<bgp::Message, Notification> {
    let mut buf = bytes::BytesMut::from(wire);
    let parsed = bgp::PeerCodec::new().try_parse(&mut buf)?;
    let parsed = parsed.expect("complete message");
    let mut it = bgp::validate_message(parsed, true)?;
    Ok(it.next().expect("one message"))
}

impl Cfg {
    fn new(local_id: u32, remote_id: u32, local_hold: u16, remote_hold: u16) -> Cfg {
        let rel = if local_id < remote_id {
            "lt"
        } else if local_id > remote_id {
            "gt"
        } else {
            "eq"
        };
        let open_ok = parse_like_driver(&open_wire(REMOTE_AS, remote_id, remote_hold))
            .expect("acceptable OPEN must parse");
        let open_bad_as = parse_like_driver(&open_wire(WRONG_AS, remote_id, remote_hold))
            .expect("wrong-AS OPEN must parse");
        let wire_bad = vec![
            ("identifier-0", open_wire(REMOTE_AS, 0, remote_hold)),
            ("hold-time-1", open_wire(REMOTE_AS, remote_id, 1)),
            (
                "identifier-multicast",
                open_wire(REMOTE_AS, 0xe000_0005, remote_hold),
            ),
            ("hold-time-2", open_wire(REMOTE_AS, remote_id, 2)),
            (
                "identifier-broadcast",
                open_wire(REMOTE_AS, 0xffff_ffff, remote_hold),
            ),
        ];
        let rr = |name: &'static str, afi: u16, subtype: u8, safi: u8| {
            (name, parse_like_driver(&route_refresh_wire(afi, subtype, safi)).expect("ROUTE-REFRESH must parse"))
        };
        let rr_variants = vec![
            rr("ipv4-unicast-advertised", 1, 0, 1),
            rr("ipv6-unicast-not-advertised", 2, 0, 1),
            rr("ipv4-vpn-not-advertised", 1, 0, 128),
            rr("unknown-afi-safi", 999, 0, 77),
            rr("ipv4-unicast-subtype-borr", 1, 1, 1),
            rr("ipv4-unicast-subtype-eorr", 1, 2, 1),
            rr("afi-safi-0", 0, 0, 0),
        ];
        let upd = |name: &'static str, u: bgp::Update| (name, bgp::Message::Update(u));
        let upd_variants = vec![
            upd("end-of-rib-ipv4", bgp::Update::EndOfRib(Family::IPV4)),
            upd("end-of-rib-ipv6-not-negotiated", bgp::Update::EndOfRib(Family::IPV6)),
            upd("withdraw-ipv4-empty", bgp::Update::Unreach { family: Family::IPV4, entries: Vec::new() }),
            upd("withdraw-vpnv4-not-negotiated", bgp::Update::Unreach { family: Family::IPV4_VPN, entries: Vec::new() }),
            upd(
                "reach-ipv4-no-attributes",
                bgp::Update::Reach { family: Family::IPV4, entries: Vec::new(), nexthop: None, attr: std::sync::Arc::new(Vec::new()) },
            ),
            upd(
                "reach-ipv6-not-negotiated",
                bgp::Update::Reach { family: Family::IPV6, entries: Vec::new(), nexthop: None, attr: std::sync::Arc::new(Vec::new()) },
            ),
        ];
        let ov = |name: &'static str, asn: u32, hold: u16, four: bool, extra: bool| {
            (name, parse_like_driver(&open_variant_wire(asn, remote_id, hold, four, extra)).expect("OPEN variant must parse"))
        };
        let open_ok_variants = vec![
            ("as-configured", open_ok.clone()),
            ov("hold-time-0", REMOTE_AS, 0, true, false),
            ov("hold-time-65535", REMOTE_AS, 65535, true, false),
            ov("no-four-octet-as-capability", REMOTE_AS, remote_hold, false, false),
            ov("more-capabilities", REMOTE_AS, remote_hold, true, true),
        ];
        let open_bad_as_variants = vec![
            ("wrong-as", open_bad_as.clone()),
            ov("wrong-as-hold-time-0", WRONG_AS, 0, true, true),
            ov("wrong-as-no-four-octet", WRONG_AS, remote_hold, false, false),
        ];
        let nv = |name: &'static str, n: Notification| (name, bgp::Message::Notification(n));
        let notif_other_variants = vec![
            nv("update-3-1", Notification::UpdateMalformedAttributeList),
            nv("header-1-2", Notification::BadMessageLength { data: vec![0, 5] }),
            nv("open-2-2", Notification::OpenBadPeerAs),
            nv("hold-timer-4-0", Notification::HoldTimerExpired),
            nv("fsm-5-1", Notification::FsmUnexpectedState { state: 1 }),
            nv("cease-collision-6-7", Notification::CeaseConnectionCollision),
            nv("unknown-9-9", Notification::Other { code: 9, subcode: 9, data: vec![1, 2, 3] }),
        ];
        Cfg {
            rr_variants,
            upd_variants,
            open_ok_variants,
            open_bad_as_variants,
            notif_other_variants,
            name: format!(
                "local-id-{} local={:#010x} remote={:#010x} hold={}/{}",
                rel, local_id, remote_id, local_hold, remote_hold
            ),
            local_id,
            remote_id,
            local_hold,
            remote_hold,
            open_ok,
            open_bad_as,
            wire_bad,
        }
    }
    fn fsm(&self) -> PeerFsm {
        PeerFsm::new(
            self.local_id,
            LOCAL_AS,
            local_caps(),
            self.local_hold as u64,
            REMOTE_AS,
            FnvHashMap::default(),
        )
    }
}

// ------------------------------------------------------------------ reference FSM (from the statement)

#[derive(Clone, Copy, PartialEq, Eq, Debug)]
enum Slot {
    Free,
    OpenSent,
    OpenConfirm,
    Established,
}

impl Slot {
    fn name(self) -> &'static str {
        match self {
            Slot::Free => "idle",
            Slot::OpenSent => "open-sent",
            Slot::OpenConfirm => "open-confirm",
            Slot::Established => "established",
        }
    }
    fn busy(self) -> bool {
        matches!(self, Slot::OpenConfirm | Slot::Established)
    }
    /// RFC 6608 §3: FSM-error subcode naming the state the message arrived in
    fn rfc6608_subcode(self) -> u8 {
        match self {
            Slot::OpenSent => 1,
            Slot::OpenConfirm => 2,
            Slot::Established => 3,
            Slot::Free => 0,
        }
    }
}

#[derive(Clone, Copy, PartialEq, Eq, Debug)]
enum Loser {
    Role(usize),
    /// identifiers equal: the statement names no winner, exactly one must go
    Either,
}

#[derive(Clone, Copy, PartialEq, Eq, Debug)]
enum Clause {
    /// nothing may change
    Stay,
    /// connect on a free slot: must be accepted (OPEN sent, OpenSent)
    Accept,
    /// connect while the role's slot is occupied: the established attempt is unaffected
    Busy,
    /// acceptable OPEN in OpenSent; Some(loser) when this makes a collision
    EnterOpenConfirm(Option<Loser>),
    /// KEEPALIVE in OpenConfirm
    EnterEstablished,
    /// unacceptable OPEN: must not lead to OpenConfirm
    Reject,
    /// message not allowed in this state: FSM-error NOTIFICATION carrying the state
    FsmError(Slot),
    /// NOTIFICATION received / hold expiry / disconnect / admin shutdown
    Idle,
}

/// The statement as a transition function on (slot of this role, slot of the other role).
fn reference(
    local_id: u32,
    remote_id: u32,
    me: Slot,
    other: Slot,
    role: usize,
    sym: Sym,
) -> Clause {
    use Slot::*;
    match (sym, me) {
        (Conn | ConnRestart, Free) => Clause::Accept,
        (Conn | ConnRestart, _) => Clause::Busy,
        (_, Free) => Clause::Stay,
        (NotifCease | NotifHard | NotifOther | HoldExp | Disc | Admin | OpenWireBad, _) => {
            Clause::Idle
        }
        (KaExp | UpdSent, _) => Clause::Stay,
        (OpenOk, OpenSent) => Clause::EnterOpenConfirm(match other {
            Established => Some(Loser::Role(role)), // an Established connection survives a newcomer
            OpenConfirm if local_id > remote_id => Some(Loser::Role(PASSIVE)), // we initiated Active
            OpenConfirm if local_id < remote_id => Some(Loser::Role(ACTIVE)), // remote initiated Passive
            OpenConfirm => Some(Loser::Either),
            _ => None,
        }),
        (OpenBadAs, OpenSent) => Clause::Reject,
        (Ka, OpenConfirm) => Clause::EnterEstablished,
        (Ka | Upd | RouteRefresh, Established) => Clause::Stay,
        (OpenOk | OpenBadAs | Ka | Upd | RouteRefresh, s) => Clause::FsmError(s),
    }
}

fn slot_of(s: State) -> Slot {
    match s {
        State::OpenSent => Slot::OpenSent,
        State::OpenConfirm => Slot::OpenConfirm,
        State::Established => Slot::Established,
        // PeerFsm reports Idle for a free slot; Connect/Active are never produced
        State::Idle | State::Connect | State::Active => Slot::Free,
    }
}

// ------------------------------------------------------------------ the two drivers

#[derive(Clone, Copy, PartialEq, Eq, Debug)]
enum Mode {
    Raw,
    Arbiter,
}

enum Drv {
    Raw(PeerFsm),
    Arb {
        arb: ConnArbiter,
        rx: [Option<oneshot::Receiver<CloseReason>>; 2],
    },
}

/// What one step produced, reduced to the facts the clauses talk about.
#[derive(Default)]
struct Seen {
    skipped_already_connected: bool,
    n_outputs: usize,
    open_sent: Option<(u32, u32, u16)>,
    session_established: bool,
    down: [bool; 2],
    down_notif: Option<(u8, u8)>,
    close_conn: bool,
    /// Cease/collision (6/7) addressed to role r (SendMessage / SessionDown notification / close channel)
    cease_to: [bool; 2],
    cease_on_channel: [bool; 2],
    /// something other than Cease/collision arrived on a close channel
    other_on_channel: [bool; 2],
    parser: Option<(&'static str, Option<(u8, u8)>)>,
    parser_accepted: bool,
    /// which content variant of the message kind was fed
    variant: &'static str,
}

fn notif_codes(m: &bgp::Message) -> Option<(u8, u8)> {
    match m {
        bgp::Message::Notification(n) => Some((n.notification_code(), n.notification_subcode())),
        _ => None,
    }
}

impl Drv {
    fn new(cfg: &Cfg, mode: Mode) -> Drv {
        match mode {
            Mode::Raw => Drv::Raw(cfg.fsm()),
            Mode::Arbiter => Drv::Arb {
                arb: ConnArbiter::new(cfg.fsm()),
                rx: [None, None],
            },
        }
    }
    fn state(&self, r: usize) -> State {
        match self {
            Drv::Raw(f) => f.state(role_of(r)),
            Drv::Arb { arb, .. } => arb.state(role_of(r)),
        }
    }
    fn process(&mut self, r: usize, input: Input) -> Vec<PeerFsmOutput> {
        match self {
            Drv::Raw(f) => f.process(role_of(r), input),
            Drv::Arb { arb, .. } => arb.process(role_of(r), input),
        }
    }
    /// accept_connection: refuse when the role's close channel is installed,
    /// otherwise install a fresh one before the session starts.
    fn install_channel(&mut self, r: usize) -> bool {
        if let Drv::Arb { arb, rx } = self {
            let slot = if r == ACTIVE {
                &mut arb.active_close_tx
            } else {
                &mut arb.passive_close_tx
            };
            if slot.is_some() {
                return false;
            }
            let (tx, rcv) = oneshot::channel::<CloseReason>();
            *slot = Some(tx);
            rx[r] = Some(rcv);
        }
        true
    }
    /// apply_disconnect: the ended session's channel is dropped (the following
    /// Input::Disconnected is fed by the caller as a step of its own).
    fn drop_channel(&mut self, r: usize) {
        if let Drv::Arb { arb, rx } = self {
            if r == ACTIVE {
                arb.active_close_tx = None;
            } else {
                arb.passive_close_tx = None;
            }
            rx[r] = None;
        }
    }

    /// Feed one symbol the way the driver would; `variant` selects the rejected-OPEN image.
    fn feed(
        &mut self,
        cfg: &Cfg,
        r: usize,
        sym: Sym,
        variant: usize,
        render: Option<&mut Vec<String>>,
    ) -> Seen {
        let mut seen = Seen::default();
        let input = match sym {
            Conn | ConnRestart => {
                if !self.install_channel(r) {
                    seen.skipped_already_connected = true;
                    return seen;
                }
                Input::Connected(sym == ConnRestart)
            }
            OpenOk => {
                let (name, m) = &cfg.open_ok_variants[variant % cfg.open_ok_variants.len()];
                seen.variant = name;
                Input::MessageReceived(m.clone())
            }
            OpenBadAs => {
                let (name, m) = &cfg.open_bad_as_variants[variant % cfg.open_bad_as_variants.len()];
                seen.variant = name;
                Input::MessageReceived(m.clone())
            }
            OpenWireBad => {
                let (name, wire) = &cfg.wire_bad[variant % cfg.wire_bad.len()];
                seen.variant = name;
                match parse_like_driver(wire) {
                    // run_select: a parse error terminates the session with that
                    // NOTIFICATION, bypassing the FSM; apply_disconnect then feeds
                    // Input::Disconnected.
                    Err(n) => {
                        seen.parser = Some((
                            *name,
                            Some((n.notification_code(), n.notification_subcode())),
                        ));
                        Input::Disconnected
                    }
                    Ok(m) => {
                        seen.parser = Some((*name, None));
                        seen.parser_accepted = true;
                        Input::MessageReceived(m)
                    }
                }
            }
            Ka => Input::MessageReceived(bgp::Message::Keepalive),
            Upd => {
                let (name, m) = &cfg.upd_variants[variant % cfg.upd_variants.len()];
                seen.variant = name;
                Input::MessageReceived(m.clone())
            }
            NotifCease => {
                Input::MessageReceived(bgp::Message::Notification(Notification::CeaseAdminShutdown))
            }
            NotifHard => {
                Input::MessageReceived(bgp::Message::Notification(Notification::CeaseHardReset))
            }
            NotifOther => {
                let (name, m) = &cfg.notif_other_variants[variant % cfg.notif_other_variants.len()];
                seen.variant = name;
                Input::MessageReceived(m.clone())
            }
            RouteRefresh => {
                let (name, m) = &cfg.rr_variants[variant % cfg.rr_variants.len()];
                seen.variant = name;
                Input::MessageReceived(m.clone())
            }
            HoldExp => Input::HoldTimerExpired,
            KaExp => Input::KeepaliveTimerExpired,
            Disc => Input::Disconnected,
            Admin => Input::AdminShutdown,
            UpdSent => Input::UpdateSent,
        };
        let outs = self.process(r, input);
        seen.n_outputs = outs.len();
        let mut rendered = render;
        for o in &outs {
            if let Some(v) = rendered.as_deref_mut() {
                v.push(render_out(o));
            }
            match o {
                PeerFsmOutput::CloseConnection => seen.close_conn = true,
                PeerFsmOutput::StopActiveConnect => {}
                PeerFsmOutput::Connection(orole, out) => {
                    let oi = idx_of(*orole);
                    match out {
                        Output::SendMessage(bgp::Message::Open(op)) if oi == r => {
                            seen.open_sent =
                                Some((op.as_number, op.router_id, op.holdtime.seconds()));
                        }
                        Output::SendMessage(m) => {
                            if notif_codes(m) == Some((6, 7)) {
                                seen.cease_to[oi] = true;
                            }
                        }
                        Output::SessionEstablished { .. } => seen.session_established = true,
                        Output::SessionDown(_, notif) => {
                            seen.down[oi] = true;
                            let codes = notif.as_ref().and_then(notif_codes);
                            if oi == r {
                                seen.down_notif = codes;
                            }
                            if codes == Some((6, 7)) {
                                seen.cease_to[oi] = true;
                            }
                        }
                        _ => {}
                    }
                }
            }
        }
        // what arrived on the close channels (ConnArbiter delivers the loser's CEASE there)
        if let Drv::Arb { rx, .. } = self {
            for i in 0..2 {
                let got = match rx[i].as_mut() {
                    Some(rcv) => rcv.try_recv().ok(),
                    None => None,
                };
                if let Some(reason) = got {
                    let is_cease = matches!(&reason, CloseReason::SendMessage(m) if notif_codes(m) == Some((6, 7)));
                    if let Some(v) = rendered.as_deref_mut() {
                        v.push(format!(
                            "close-channel[{}] <- {}",
                            role_name(i),
                            match &reason {
                                CloseReason::AdminShutdown => "AdminShutdown".to_string(),
                                CloseReason::Silent => "Silent".to_string(),
                                CloseReason::SendMessage(m) =>
                                    format!("SendMessage({})", render_msg(m)),
                            }
                        ));
                    }
                    if is_cease {
                        seen.cease_to[i] = true;
                        seen.cease_on_channel[i] = true;
                    } else {
                        seen.other_on_channel[i] = true;
                    }
                }
            }
        }
        seen
    }
}

fn render_msg(m: &bgp::Message) -> String {
    match m {
        bgp::Message::Open(o) => format!(
            "OPEN(as={},id={:#010x},hold={})",
            o.as_number,
            o.router_id,
            o.holdtime.seconds()
        ),
        bgp::Message::Update(_) => "UPDATE".into(),
        bgp::Message::Notification(n) => format!(
            "NOTIFICATION({}/{})",
            n.notification_code(),
            n.notification_subcode()
        ),
        bgp::Message::Keepalive => "KEEPALIVE".into(),
        bgp::Message::RouteRefresh { .. } => "ROUTE-REFRESH".into(),
    }
}

fn render_out(o: &PeerFsmOutput) -> String {
    match o {
        PeerFsmOutput::CloseConnection => "CloseConnection".into(),
        PeerFsmOutput::StopActiveConnect => "StopActiveConnect".into(),
        PeerFsmOutput::Connection(r, out) => {
            let body = match out {
                Output::SendMessage(m) => format!("Send {}", render_msg(m)),
                Output::SetKeepaliveTimer(n) => format!("SetKeepaliveTimer({})", n),
                Output::SetHoldTimer(n) => format!("SetHoldTimer({})", n),
                Output::SessionNegotiated(_) => "SessionNegotiated".into(),
                Output::SessionEstablished {
                    remote_id,
                    remote_holdtime,
                    ..
                } => {
                    format!(
                        "SessionEstablished(id={:#010x},hold={})",
                        remote_id, remote_holdtime
                    )
                }
                Output::SessionDown(reason, n) => format!(
                    "SessionDown({}, {})",
                    match reason {
                        SessionDownReason::HoldTimerExpired => "HoldTimerExpired",
                        SessionDownReason::RemoteNotification(_) => "RemoteNotification",
                        SessionDownReason::LocalNotification(_) => "LocalNotification",
                        SessionDownReason::FsmError => "FsmError",
                        SessionDownReason::AdminShutdown => "AdminShutdown",
                        SessionDownReason::IoError => "IoError",
                    },
                    n.as_ref().map(render_msg).unwrap_or_else(|| "-".into())
                ),
                Output::StateChanged(s) => format!("StateChanged({:?})", s),
                Output::RouteRefresh(_) => "RouteRefresh".into(),
            };
            format!("{}:{}", role_name(idx_of(*r)), body)
        }
    }
}

// ------------------------------------------------------------------ judging one step

#[derive(Default)]
struct Tally {
    m: BTreeMap<&'static str, u64>,
    dyn_m: BTreeMap<String, u64>,
}
impl Tally {
    fn add(&mut self, k: &'static str) {
        *self.m.entry(k).or_insert(0) += 1;
    }
    fn flush(&mut self, rep: &mut Report) {
        for (k, v) in std::mem::take(&mut self.m) {
            rep.count_n(k, v);
        }
        for (k, v) in std::mem::take(&mut self.dyn_m) {
            rep.count_n(&k, v);
        }
    }
}

struct Finding {
    sig: String,
    what: String,
}

fn both(a: Slot, p: Slot) -> String {
    format!("{}+{}", a.name(), p.name())
}

/// Judge step (`r`, `sym`) given the observed states before / after and what was emitted.
#[allow(clippy::too_many_arguments)]
fn judge(
    cfg: &Cfg,
    mode: Mode,
    prev: [Slot; 2],
    next: [Slot; 2],
    r: usize,
    sym: Sym,
    seen: &Seen,
    cause: &[&'static str; 2],
    t: &mut Tally,
    out: &mut Vec<Finding>,
) {
    let o = 1 - r;
    let (p, n, op, on) = (prev[r], next[r], prev[o], next[o]);
    let mut fail = |sig: String, what: String| out.push(Finding { sig, what });

    if seen.skipped_already_connected {
        // the driver never told the FSM: nothing to judge but the invariant
        t.add("arbiter:connect-skipped-already-connected");
        if next[ACTIVE].busy() && next[PASSIVE].busy() {
            fail(
                format!("C07/at-most-one/{}", both(next[ACTIVE], next[PASSIVE])),
                "both roles in OpenConfirm-or-Established".into(),
            );
        }
        return;
    }
    let clause = reference(cfg.local_id, cfg.remote_id, p, op, r, sym);
    // which (state, message kind, content variant) combinations were really judged
    if p != Slot::Free && !seen.variant.is_empty() {
        *t.dyn_m
            .entry(format!("variant:{}:{}:{}", p.name(), sym.name(), seen.variant))
            .or_insert(0) += 1;
    }

    // ---- parser part of "acceptable OPEN (valid identifier and hold time)"
    if let Some((variant, codes)) = seen.parser {
        match codes {
            Some((2, 3)) | Some((2, 6)) => t.add("parser:bad-open-rejected"),
            Some(_) => t.add("unjudged:parser-rejected-with-other-notification"),
            None => t.add("parser:bad-open-ACCEPTED"),
        }
        if seen.parser_accepted && n == Slot::OpenConfirm && p != Slot::OpenConfirm {
            fail(
                format!("C07/path/open-confirm-by-unacceptable-open/{}", variant),
                format!(
                    "an OPEN with {} was accepted by the parser and moved the connection to OpenConfirm",
                    variant
                ),
            );
        }
    }

    // ---- path: how states may be entered
    if n != p {
        let legal = match n {
            Slot::OpenSent => p == Slot::Free && matches!(sym, Conn | ConnRestart),
            Slot::OpenConfirm => p == Slot::OpenSent && (sym == OpenOk || seen.parser_accepted),
            Slot::Established => p == Slot::OpenConfirm && sym == Ka,
            Slot::Free => true,
        };
        if !legal {
            fail(
                format!("C07/path/{}-from-{}-by-{}", n.name(), p.name(), sym.name()),
                format!("{} entered from {} by {}", n.name(), p.name(), sym.name()),
            );
        }
    }
    if seen.session_established && !(p == Slot::OpenConfirm && sym == Ka && n == Slot::Established)
    {
        fail(
            format!(
                "C07/path/session-established-output-in-{}-by-{}",
                p.name(),
                sym.name()
            ),
            "SessionEstablished emitted outside the OpenConfirm+KEEPALIVE step".into(),
        );
    }
    let collision = match clause {
        Clause::EnterOpenConfirm(c) => c,
        _ => None,
    };
    if on != op {
        // which side goes in a collision is the collision clause's business
        let legal = on == Slot::Free && collision.is_some();
        if !legal {
            fail(
                format!(
                    "C07/path/other-role-{}-to-{}-by-{}",
                    op.name(),
                    on.name(),
                    sym.name()
                ),
                format!(
                    "input {} on role {} changed the other role from {} to {}",
                    sym.name(),
                    role_name(r),
                    op.name(),
                    on.name()
                ),
            );
        }
    }

    // ---- at-most-one
    if next[ACTIVE].busy() && next[PASSIVE].busy() {
        fail(
            format!("C07/at-most-one/{}", both(next[ACTIVE], next[PASSIVE])),
            format!(
                "after {} on {}: active={} passive={}",
                sym.name(),
                role_name(r),
                next[ACTIVE].name(),
                next[PASSIVE].name()
            ),
        );
    }

    // ---- the clause the statement attaches to this (state, input)
    match clause {
        Clause::Stay => {
            if p == Slot::Free {
                t.add("step:input-on-free-slot");
            } else if n == Slot::Free {
                t.add("unjudged:torn-down-without-cause");
            } else {
                t.add("step:stay");
            }
        }
        Clause::Accept => {
            let c = cause[r];
            if n != Slot::OpenSent || seen.close_conn {
                fail(
                    format!("C07/idle/{}/reconnect-refused", c),
                    format!(
                        "connect on role {} whose slot is free (freed by: {}) was not accepted (state {})",
                        role_name(r),
                        c,
                        n.name()
                    ),
                );
            } else {
                match seen.open_sent {
                    Some((a, i, h))
                        if a == LOCAL_AS && i == cfg.local_id && h == cfg.local_hold => {}
                    other => fail(
                        "C07/path/open-not-sent".into(),
                        format!(
                            "connect accepted but OPEN sent = {:?} (as, id, hold), expected ({}, {}, {})",
                            other, LOCAL_AS, cfg.local_id, cfg.local_hold
                        ),
                    ),
                }
                match c {
                    "initial" => t.add("accept:initial"),
                    "notification" => t.add("accept-after:notification"),
                    "hold-expiry" => t.add("accept-after:hold-expiry"),
                    "disconnect" => t.add("accept-after:disconnect"),
                    "admin-shutdown" => t.add("accept-after:admin-shutdown"),
                    "collision" => t.add("accept-after:collision"),
                    "fsm-error" => t.add("accept-after:fsm-error"),
                    _ => t.add("accept-after:other"),
                }
            }
        }
        Clause::Busy => {
            t.add("step:connect-on-busy-slot");
            if n == Slot::Free {
                t.add("unjudged:busy-connect-tore-down");
            }
            if mode == Mode::Raw && !seen.close_conn {
                t.add("unjudged:busy-connect-without-close-connection");
            }
        }
        Clause::EnterOpenConfirm(None) => {
            if n == Slot::OpenConfirm {
                t.add("reach:open-confirm");
            } else if n == Slot::Free {
                t.add("unjudged:acceptable-open-refused");
            } else {
                t.add("unjudged:no-progress-on-open");
            }
        }
        Clause::EnterOpenConfirm(Some(expected)) => {
            let me_survived = n == Slot::OpenConfirm;
            let me_lost = n == Slot::Free;
            let other_survived = on == op;
            if op == Slot::Established {
                t.add("collision:newcomer-vs-established");
            } else {
                t.add("collision:both-open-confirm");
            }
            if !me_survived && !me_lost {
                t.add("unjudged:no-progress-on-open");
            } else if me_survived && other_survived {
                // already reported by at-most-one
                t.add("collision:both-survived");
            } else if me_lost && !other_survived {
                fail(
                    "C07/collision/no-survivor".into(),
                    "the collision closed both connections".into(),
                );
            } else {
                let loser = if me_survived { o } else { r };
                let survivor = 1 - loser;
                if op == Slot::Established && loser == o {
                    fail(
                        "C07/collision/established-did-not-survive".into(),
                        format!(
                            "the Established {} connection was closed in favour of a newcomer",
                            role_name(o)
                        ),
                    );
                } else if let Loser::Role(l) = expected {
                    if l != loser {
                        fail(
                            format!(
                                "C07/collision/wrong-survivor/local-id-{}",
                                if cfg.local_id > cfg.remote_id {
                                    "higher"
                                } else {
                                    "lower"
                                }
                            ),
                            format!(
                                "local id {:#010x}, remote id {:#010x}: the {} connection must survive, but {} did",
                                cfg.local_id,
                                cfg.remote_id,
                                role_name(1 - l),
                                role_name(survivor)
                            ),
                        );
                    }
                } else {
                    t.add("unjudged:collision-with-equal-identifiers");
                }
                if !seen.cease_to[loser] {
                    fail(
                        format!(
                            "C07/collision/no-cease-to-loser/{}",
                            if loser == r { "caller" } else { "other" }
                        ),
                        format!(
                            "loser {} was not sent Cease/collision (6/7)",
                            role_name(loser)
                        ),
                    );
                } else if mode == Mode::Arbiter && loser != r && !seen.cease_on_channel[loser] {
                    fail(
                        "C07/collision/cease-not-on-close-channel".into(),
                        "ConnArbiter returned the loser's CEASE to the caller instead of the loser's close channel".into(),
                    );
                } else if loser == r && !seen.down[r] {
                    fail(
                        "C07/collision/no-session-down-for-losing-caller".into(),
                        "the calling connection lost but got no SessionDown".into(),
                    );
                }
                if seen.cease_to[survivor] {
                    fail(
                        "C07/collision/cease-to-survivor".into(),
                        format!("survivor {} was sent Cease/collision", role_name(survivor)),
                    );
                }
                if loser == ACTIVE {
                    t.add("collision:loser-active");
                } else {
                    t.add("collision:loser-passive");
                }
                if seen.cease_on_channel[loser] {
                    t.add("collision:cease-on-close-channel");
                }
                if loser == r {
                    t.add("collision:caller-lost");
                }
            }
        }
        Clause::EnterEstablished => {
            if n == Slot::Established {
                t.add("reach:established");
            } else if n == Slot::Free {
                t.add("unjudged:keepalive-in-open-confirm-refused");
            } else {
                t.add("unjudged:no-progress-on-keepalive");
            }
        }
        Clause::Reject => {
            // reaching OpenConfirm is a path violation (reported above)
            if n == Slot::Free {
                t.add("reject:wrong-as");
            } else {
                t.add("unjudged:wrong-as-open-not-torn-down");
            }
        }
        Clause::FsmError(s) => {
            match s {
                Slot::OpenSent => t.add("fsm-error:open-sent"),
                Slot::OpenConfirm => t.add("fsm-error:open-confirm"),
                _ => t.add("fsm-error:established"),
            }
            if n != Slot::Free || !seen.down[r] {
                fail(
                    format!("C07/fsm-error/{}/{}", s.name(), sym.name()),
                    format!(
                        "{} [{}] is not allowed in {} but the connection was not torn down (state {}, SessionDown {})",
                        sym.name(),
                        seen.variant,
                        s.name(),
                        n.name(),
                        seen.down[r]
                    ),
                );
            } else {
                match seen.down_notif {
                    Some((5, sub)) if sub == s.rfc6608_subcode() => {}
                    Some((5, sub)) => fail(
                        format!("C07/fsm-error/{}/subcode", s.name()),
                        format!(
                            "FSM-error NOTIFICATION for a message received in {} carries subcode {} (RFC 6608: {} = {})",
                            s.name(),
                            sub,
                            s.rfc6608_subcode(),
                            s.name()
                        ),
                    ),
                    other => fail(
                        format!("C07/fsm-error/{}/{}", s.name(), sym.name()),
                        format!(
                            "torn down without an FSM-error NOTIFICATION (notification {:?})",
                            other
                        ),
                    ),
                }
            }
        }
        Clause::Idle => {
            let c = sym.idle_cause();
            match c {
                "notification" => t.add("idle:notification"),
                "hold-expiry" => t.add("idle:hold-expiry"),
                "disconnect" => t.add("idle:disconnect"),
                _ => t.add("idle:admin-shutdown"),
            }
            if n != Slot::Free {
                fail(
                    format!("C07/idle/{}/not-idle", c),
                    format!(
                        "{} in {} left the connection in {}",
                        sym.name(),
                        p.name(),
                        n.name()
                    ),
                );
            } else if !seen.down[r] {
                fail(
                    format!("C07/idle/{}/no-session-down", c),
                    format!(
                        "{} in {} freed the slot without SessionDown",
                        sym.name(),
                        p.name()
                    ),
                );
            }
        }
    }
    if seen.cease_to.iter().any(|c| *c) && collision.is_none() {
        t.add("unjudged:cease-collision-without-collision");
    }
    if seen.other_on_channel.iter().any(|c| *c) {
        t.add("unjudged:non-cease-on-close-channel");
    }
}

// ------------------------------------------------------------------ running one history

struct RunResult {
    findings: Vec<Finding>,
    /// index of the step the findings belong to
    at: usize,
}

/// Run `seq`; judge every step when `judge_all`, else only the last one.
/// `on_step(is_last, nontrivial)` is called for judged steps.
fn run_history(
    cfg: &Cfg,
    mode: Mode,
    seq: &[u8],
    judge_all: bool,
    // content variant of the last symbol; inner steps rotate (vbase + position)
    last_variant: usize,
    t: &mut Tally,
    mut trace: Option<&mut Vec<String>>,
) -> (
    RunResult,
    u64,  /*judged*/
    bool, /*last step non-trivial*/
) {
    let mut drv = Drv::new(cfg, mode);
    let mut cause: [&'static str; 2] = ["initial", "initial"];
    let mut res = RunResult {
        findings: Vec::new(),
        at: 0,
    };
    let mut judged = 0u64;
    let mut last_nontrivial = false;
    let mut i = 0usize;
    // steps queued by the session-end protocol (apply_disconnect) of the arbiter driver
    let mut auto: Vec<usize> = Vec::new();
    let mut pos = 0usize;
    loop {
        let (r, sym, is_auto) = if let Some(ar) = auto.pop() {
            (ar, Disc, true)
        } else if pos < seq.len() {
            let (r, s) = decode(seq[pos] as usize);
            pos += 1;
            (r, s, false)
        } else {
            break;
        };
        let is_last = !is_auto && pos == seq.len();
        let do_judge = judge_all || is_last || (is_auto && pos == seq.len());
        let prev = [slot_of(drv.state(ACTIVE)), slot_of(drv.state(PASSIVE))];
        if is_auto {
            drv.drop_channel(r);
        }
        let mut rendered = Vec::new();
        let seen = drv.feed(
            cfg,
            r,
            sym,
            if is_last { last_variant } else { last_variant / 8 + i + seq.len() },
            if trace.is_some() {
                Some(&mut rendered)
            } else {
                None
            },
        );
        let next = [slot_of(drv.state(ACTIVE)), slot_of(drv.state(PASSIVE))];
        if let Some(tr) = trace.as_deref_mut() {
            tr.push(format!(
                "{}{}:{}{} -> [{}] states A={} P={}",
                if is_auto { "(apply_disconnect) " } else { "" },
                role_name(r),
                sym.name(),
                match seen.parser {
                    Some((v, c)) => format!("[{} parser={:?}]", v, c),
                    None if !seen.variant.is_empty() => format!("[{}]", seen.variant),
                    None => String::new(),
                },
                rendered.join(", "),
                next[ACTIVE].name(),
                next[PASSIVE].name()
            ));
        }
        if do_judge {
            // every step is judged on the states observed before it, so a finding
            // at one step does not disturb the judgement of the following ones
            let before = res.findings.len();
            judge(
                cfg,
                mode,
                prev,
                next,
                r,
                sym,
                &seen,
                &cause,
                t,
                &mut res.findings,
            );
            if res.findings.len() > before && before == 0 {
                res.at = i;
            }
            judged += 1;
            if is_last {
                last_nontrivial = prev[r] != Slot::Free
                    || (matches!(sym, Conn | ConnRestart) && !seen.skipped_already_connected);
            }
        }
        // remember what freed a slot (names the idle clause's "subsequent connect")
        for x in 0..2 {
            if prev[x] != Slot::Free && next[x] == Slot::Free {
                cause[x] = if x != r {
                    "collision"
                } else {
                    match reference(cfg.local_id, cfg.remote_id, prev[r], prev[1 - r], r, sym) {
                        Clause::Idle => sym.idle_cause(),
                        Clause::FsmError(_) => "fsm-error",
                        Clause::EnterOpenConfirm(Some(_)) => "collision",
                        Clause::Reject => "open-rejected",
                        _ => "other",
                    }
                };
            }
        }
        // arbiter: a session that ended (SessionDown / CloseConnection returned to its
        // task, or a message on its close channel) runs apply_disconnect next
        if mode == Mode::Arbiter && !is_auto {
            for x in 0..2 {
                let ended = (x == r
                    && (seen.down[r]
                        || seen.close_conn
                        || seen.parser.is_some_and(|p| p.1.is_some())))
                    || seen.cease_on_channel[x]
                    || seen.other_on_channel[x];
                // a parse error ends the session before the FSM hears of it: the
                // Disconnected already fed *is* apply_disconnect's; only drop the channel
                if ended && sym == OpenWireBad && x == r {
                    drv.drop_channel(r);
                } else if ended {
                    auto.push(x);
                }
            }
        }
        i += 1;
    }
    (res, judged, last_nontrivial)
}

fn seq_json(seq: &[u8]) -> Json {
    Json::strs(seq.iter().map(|c| {
        let (r, s) = decode(*c as usize);
        format!("{}:{}", role_name(r), s.name())
    }))
}

fn report_findings(rep: &mut Report, cfg: &Cfg, mode: Mode, seq: &[u8], variant: usize, res: RunResult) {
    // replay with rendering for the witness
    let mut t = Tally::default();
    let mut trace = Vec::new();
    let _ = run_history(cfg, mode, seq, true, variant, &mut t, Some(&mut trace));
    for f in res.findings {
        rep.violation(
            &f.sig,
            &f.what,
            Json::obj(vec![
                ("config", Json::s(cfg.name.clone())),
                ("driver", Json::s(format!("{:?}", mode))),
                ("local_id", Json::i(cfg.local_id)),
                ("remote_id", Json::i(cfg.remote_id)),
                ("local_hold", Json::i(cfg.local_hold)),
                ("remote_hold", Json::i(cfg.remote_hold)),
                ("inputs", seq_json(seq)),
                ("content_variant_of_last_input", Json::i(variant as u64)),
                ("input_codes_hex", Json::s(hex(seq))),
                ("failing_step", Json::i(res.at as u32)),
                ("trace", Json::strs(trace.clone())),
            ]),
        );
    }
}

/// Greedy delta-debugging: drop steps while the same signature is still produced.
fn shrink(cfg: &Cfg, mode: Mode, seq: &[u8], variant: usize, sig: &str) -> Vec<u8> {
    let mut cur = seq.to_vec();
    let mut t = Tally::default();
    let fires = |s: &[u8], t: &mut Tally| {
        let (res, _, _) = run_history(cfg, mode, s, true, variant, t, None);
        res.findings.iter().any(|f| f.sig == sig)
    };
    // cut the tail after the failing step first
    let (res, _, _) = run_history(cfg, mode, &cur, true, variant, &mut t, None);
    if res.at + 1 < cur.len() && fires(&cur[..res.at + 1], &mut t) {
        cur.truncate(res.at + 1);
    }
    let mut progress = true;
    while progress {
        progress = false;
        let mut i = 0;
        while i < cur.len() {
            let mut cand = cur.clone();
            cand.remove(i);
            if !cand.is_empty() && fires(&cand, &mut t) {
                cur = cand;
                progress = true;
            } else {
                i += 1;
            }
        }
    }
    cur
}

// ------------------------------------------------------------------ workloads

fn configs() -> Vec<Cfg> {
    // identifiers chosen so that numeric (network-order) and byte-swapped orders disagree
    let local = 0x0200_0001u32; // 2.0.0.1
    let remotes = [
        0x0100_0003u32, /* 1.0.0.3 < */
        0x0300_0000u32, /* 3.0.0.0 > */
        local,          /* = */
    ];
    let holds = [(90u16, 30u16), (0, 90), (9, 0)];
    let mut v = Vec::new();
    for r in remotes {
        for (lh, rh) in holds {
            v.push(Cfg::new(local, r, lh, rh));
        }
    }
    v
}

/// lexicographic successor over the alphabet; false when wrapped around
fn next_seq(seq: &mut [u8]) -> bool {
    for k in (0..seq.len()).rev() {
        seq[k] += 1;
        if (seq[k] as usize) < NSYM {
            return true;
        }
        seq[k] = 0;
    }
    false
}

fn shard_index(p: &Params) -> usize {
    p.shard
        .rsplit('-')
        .next()
        .and_then(|s| s.parse().ok())
        .unwrap_or(0)
}

fn exhaustive(rep: &mut Report, params: &Params, depth: usize, t: &mut Tally) {
    let nshards = params.get_u64("nshards", 1).max(1) as usize;
    let me = shard_index(params) % nshards;
    let cfgs = configs();
    let mut complete = true;
    'outer: for (ci, cfg) in cfgs.iter().enumerate() {
        for mode in [Mode::Raw, Mode::Arbiter] {
            for d in 1..=depth {
                let mut seq = vec![0u8; d];
                let mut n_since_check = 0u32;
                loop {
                    let bucket = if d >= 2 {
                        seq[0] as usize * NSYM + seq[1] as usize
                    } else {
                        seq[0] as usize
                    };
                    // the content variants of the last symbol (they decide nothing in the reference
                    // FSM, but the code may branch on them before it looks at the state)
                    let fan = if bucket % nshards == me { n_variants(cfg, decode(seq[d - 1] as usize).1) } else { 0 };
                    for v in 0..fan {
                        let (res, judged, nontrivial) =
                            run_history(cfg, mode, &seq, false, v, t, None);
                        rep.evals(judged);
                        if nontrivial {
                            let mut key = vec![ci as u8, mode as u8, v as u8];
                            key.extend_from_slice(&seq);
                            rep.nontrivial(fnv64(&key));
                        }
                        if !res.findings.is_empty() {
                            let known = res.findings.iter().all(|f| rep.has_violation(&f.sig));
                            if known {
                                for f in res.findings {
                                    rep.violation(&f.sig, &f.what, Json::Null);
                                }
                            } else {
                                report_findings(rep, cfg, mode, &seq, v, res);
                            }
                        }
                        if rep.want_sample()
                            && d == depth
                            && nontrivial
                            && seq[d - 1] as usize % 16 == 5
                        {
                            let mut tr = Vec::new();
                            let mut t2 = Tally::default();
                            let _ = run_history(cfg, mode, &seq, true, v, &mut t2, Some(&mut tr));
                            rep.sample(Json::obj(vec![
                                ("config", Json::s(cfg.name.clone())),
                                ("driver", Json::s(format!("{:?}", mode))),
                                ("trace", Json::strs(tr)),
                            ]));
                        }
                        n_since_check += 1;
                        if n_since_check >= 4096 {
                            n_since_check = 0;
                            if !rep.in_budget() {
                                complete = false;
                                break 'outer;
                            }
                        }
                    }
                    if !next_seq(&mut seq) {
                        break;
                    }
                }
            }
            t.add("exhaustive:config-driver-combinations-completed");
        }
    }
    rep.exhaustive = Some(complete);
    rep.extra("exhaustive_depth", Json::i(depth as u32));
    if !complete {
        rep.inconclusive("exhaustive enumeration cut short by the time budget");
    }
}

fn random_cfg(rng: &mut Rng) -> Cfg {
    let ids = [
        0x0100_0009u32,
        0x0900_0001,
        0x0a00_0001,
        0x0a00_0002,
        0xc0a8_0101,
        0x0000_0001,
        0xdfff_fffe,
    ];
    let local = if rng.chance(1, 3) {
        rng.range(1, 0xdfff_fffe) as u32
    } else {
        *rng.pick(&ids)
    };
    let remote = if rng.chance(1, 8) {
        local
    } else if rng.chance(1, 3) {
        // neighbours of the local identifier
        if rng.bool() {
            local.wrapping_add(1)
        } else {
            local.wrapping_sub(1)
        }
    } else if rng.chance(1, 2) {
        local.swap_bytes()
    } else {
        *rng.pick(&ids)
    };
    // keep the remote identifier one the parser accepts
    let remote = match remote {
        0 => 1,
        x if x >= 0xe000_0000 => 0x0b00_0001,
        x => x,
    };
    let holds = [0u16, 3, 9, 30, 90, 65535];
    Cfg::new(local, remote, *rng.pick(&holds), *rng.pick(&holds))
}

fn random_histories(rep: &mut Report, params: &Params, count: u64, t: &mut Tally) {
    let mut rng = Rng::new(params.seed ^ 0xC07C_07C0_7C07);
    // weights: progress-making inputs more likely so that deep states are visited
    let weighted: Vec<Sym> = {
        let mut v = Vec::new();
        for s in SYMS {
            let w = match s {
                Conn => 5,
                OpenOk => 6,
                Ka => 6,
                Upd | RouteRefresh | KaExp | UpdSent => 2,
                _ => 1,
            };
            for _ in 0..w {
                v.push(s);
            }
        }
        v
    };
    let mut done = 0u64;
    let mut cfg = random_cfg(&mut rng);
    while done < count && rep.in_budget() {
        if done % 16 == 0 {
            cfg = random_cfg(&mut rng);
        }
        let mode = if rng.bool() { Mode::Raw } else { Mode::Arbiter };
        let len = rng.range(30, 200) as usize;
        let mut seq = Vec::with_capacity(len + 2);
        for _ in 0..len {
            let r = rng.usize(2);
            let s = *rng.pick(&weighted);
            let code = SYMS.iter().position(|x| *x == s).unwrap();
            seq.push((r * 16 + code) as u8);
        }
        // the idle clause's "a subsequent connect is accepted": end with a connect on each role
        seq.push(0);
        seq.push(16);
        // content variants rotate through the history from a random offset
        let variant = (rng.next_u32() as usize) | 8;
        let (res, judged, _) = run_history(&cfg, mode, &seq, true, variant, t, None);
        rep.evals(judged);
        let mut key = vec![mode as u8];
        key.extend_from_slice(&(variant as u64).to_be_bytes());
        key.extend_from_slice(&cfg.local_id.to_be_bytes());
        key.extend_from_slice(&cfg.remote_id.to_be_bytes());
        key.extend_from_slice(&seq);
        rep.nontrivial(fnv64(&key));
        t.add("random:histories");
        if !res.findings.is_empty() {
            for f in &res.findings {
                if rep.has_violation(&f.sig) {
                    rep.violation(&f.sig, &f.what, Json::Null);
                } else {
                    let small = shrink(&cfg, mode, &seq, variant, &f.sig);
                    let mut t2 = Tally::default();
                    let (r2, _, _) = run_history(&cfg, mode, &small, true, variant, &mut t2, None);
                    let keep: Vec<Finding> =
                        r2.findings.into_iter().filter(|g| g.sig == f.sig).collect();
                    report_findings(
                        rep,
                        &cfg,
                        mode,
                        &small,
                        variant,
                        RunResult {
                            findings: keep,
                            at: r2.at,
                        },
                    );
                }
            }
        }
        done += 1;
    }
}

/// Not judged (outside the statement, which speaks about connections, while the
/// arbiter addresses roles): the loser of a collision is told through its close
/// channel and its slot is cleared at once, but its task runs `apply_disconnect`
/// (close_tx = None; Input::Disconnected for the *role*) only later.  If a new
/// connection of the same role is accepted in between (accept_connection only
/// looks at close_tx, which ConnArbiter::process has already taken), the late
/// Disconnected clears the successor's slot.  Replayed here deterministically at
/// the arbiter level and counted; the interleaving itself is not forced on a
/// real driver.
fn probe_late_apply_disconnect(rep: &mut Report) {
    let cfg = Cfg::new(0x0200_0001, 0x0100_0003, 90, 30); // local id higher: the passive connection loses
    let mut drv = Drv::new(&cfg, Mode::Arbiter);
    let mut trace: Vec<String> = Vec::new();
    let step = |drv: &mut Drv, r: usize, sym: Sym, note: &str, trace: &mut Vec<String>| {
        let mut rendered = Vec::new();
        let seen = drv.feed(&cfg, r, sym, 0, Some(&mut rendered));
        trace.push(format!(
            "{}{}:{} -> [{}] states A={} P={}",
            note,
            role_name(r),
            sym.name(),
            rendered.join(", "),
            slot_of(drv.state(ACTIVE)).name(),
            slot_of(drv.state(PASSIVE)).name()
        ));
        seen
    };
    step(&mut drv, PASSIVE, Conn, "", &mut trace);
    step(&mut drv, PASSIVE, OpenOk, "", &mut trace);
    step(&mut drv, ACTIVE, Conn, "", &mut trace);
    let seen = step(&mut drv, ACTIVE, OpenOk, "", &mut trace);
    if !seen.cease_on_channel[PASSIVE] {
        rep.count("unjudged:race-probe:not-applicable");
        return;
    }
    // a new passive connection is accepted before the loser's task has run apply_disconnect
    let seen = step(&mut drv, PASSIVE, Conn, "(new connection) ", &mut trace);
    let accepted = !seen.skipped_already_connected && slot_of(drv.state(PASSIVE)) == Slot::OpenSent;
    // the old loser's apply_disconnect
    drv.drop_channel(PASSIVE);
    step(
        &mut drv,
        PASSIVE,
        Disc,
        "(old loser's apply_disconnect) ",
        &mut trace,
    );
    let killed = accepted && slot_of(drv.state(PASSIVE)) == Slot::Free;
    rep.count(if killed {
        "unjudged:race-probe:late-apply-disconnect-clears-successor-slot"
    } else {
        "unjudged:race-probe:successor-unaffected"
    });
    rep.extra(
        "race_probe_late_apply_disconnect",
        Json::obj(vec![
            ("successor_slot_cleared", Json::Bool(killed)),
            ("trace", Json::strs(trace)),
        ]),
    );
}

#[test]
fn run() {
    let params = Params::from_args_env();
    let mut rep = Report::new("C07", &params);
    rep.max_samples = 3;
    let mut t = Tally::default();
    let part = params.get("part").unwrap_or("all").to_string();
    let depth = params.get_u64("depth", if params.thorough() { 5 } else { 4 }) as usize;
    let r = guard(|| {
        if part == "all" || part == "exhaustive" {
            exhaustive(&mut rep, &params, depth, &mut t);
        }
        if part == "all" || part == "random" {
            let n = params.get_u64("random", params.n(2_500, 60_000));
            random_histories(&mut rep, &params, n, &mut t);
        }
        if (part == "all" || part == "random") && shard_index(&params) == 0 {
            probe_late_apply_disconnect(&mut rep);
        }
    });
    t.flush(&mut rep);
    if let Err(p) = r {
        // a panic inside the FSM on some input sequence is itself a finding of the
        // transition function; a harness panic shows up with a /verif location
        if p.location.contains("verif") {
            rep.inconclusive(&format!("harness panic at {}: {}", p.location, p.message));
        } else {
            rep.violation(
                &format!("C07/panic/{}:{}", p.location, panic_class(&p.message)),
                &format!("panic in the code under test: {}", p.message),
                Json::Null,
            );
        }
    }
    let _ = rep.finish();
}
