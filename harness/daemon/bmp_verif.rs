//! Compiled inside the daemon crate as `crate::bmp::verif` under
//! cfg(all(test, osrg_rustybgp_verif)).  One sub-module per property, each
//! behind its own cfg flag (`--cfg verif_cNN`) so that modules can be built
//! and developed independently; ./check enables all flags listed in
//! /verif/harness/daemon/enabled.txt.
#![allow(unused_imports, dead_code)]
#[allow(unused)]
pub(crate) use crate::verif_common as common;

#[cfg(verif_c19b)]
#[path = "/verif/harness/daemon/c19b.rs"]
mod c19b;

#[cfg(verif_c18b)]
#[path = "/verif/harness/daemon/c18b.rs"]
mod c18b;
