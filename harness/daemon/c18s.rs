//! C18 — "stalled snapshot" scenarios for the BMP boundary.
//!
//! Compiled as `crate::event::verif::c18s` (declared in event_verif.rs under the
//! `verif_c18` flag), i.e. a descendant of `event`: only there can a `Global` be built by hand
//! (`Global::new`, `add_peer`, `Peer.state`), which the daemon's own
//! `BmpClient::try_connect` → `serve` loop needs next to a `TableManager` that
//! the test owns.
//!
//! One scenario: a Global with an anchor peer and two peers P1 / P2, a
//! TableManager that also holds thousands of "ballast" routes of a source that
//! is no peer of this Global (they make the shard walk of `subscribe(true)`
//! take tens of milliseconds and are never reported), a TCP listener as BMP
//! station.  As soon as the station's subscriber is registered — i.e. while its
//! snapshot is being taken — a short sequence of session / route operations is
//! executed with the calls and in the order the session code uses
//! (`on_established`: session_addrs, then `peer_up`; end of a session:
//! [session_addrs cleared first on the FSM path] `unregister_peer`, `peer_down`,
//! [`clear_session_state` later on the direct-Terminate paths]; `insert_route` /
//! `remove_route`).  Sequences are enumerated exhaustively up to length 3 over
//! the operations of two peers (sharded over the run), random beyond.  After the
//! window a few more operations, the pending clean-ups, one last route per
//! established peer and an anchor marker; when the station shows the marker
//! everything queued before it has been read.
//!
//! Judged (the statement's main clause at the BMP boundary + the pairing clause):
//! what the station read, folded (RouteMonitoring reach / withdraw per peer, view,
//! prefix; PeerDown clears the peer; End-of-RIB ignored), equals per peer the
//! Adj-RIB-In the RIB holds (`iter_reach` / `iter_reach_post` under the shard
//! locks) if the peer is established in Global at the end, and is empty
//! otherwise; every PeerDown closes an open PeerUp.
use super::super::*;
use crate::verif_common::*;
#[path = "/verif/harness/daemon/c19_shared.rs"]
mod shared;
use shared::*;

use crate::verif_hooks::{bind_retry, no_time_wait};
use rustybgp_packet::bgp::{
    Attribute, FamilyState, Ipv4Net, Ipv6Net, Nexthop, Nlri, ParsedMessage, ParsedUpdate, PathNlri,
    PeerCodec,
};
use std::collections::{BTreeMap, BTreeSet};
use std::time::Instant;
use tokio::io::AsyncReadExt;

const LOCAL_ASN: u32 = 65001;

type RouteKey = (u32, String, u32);
type RouteVal = (String, String);

fn fam_id(f: Family) -> u32 {
    ((f.afi() as u32) << 16) | f.safi() as u32
}

#[derive(Clone, Copy, PartialEq, Eq, Debug, PartialOrd, Ord)]
enum Op {
    /// session ends the way the FSM paths do it: session_addrs cleared, unregister_peer, peer_down
    EndFsm(usize),
    /// session ends the way the direct Step::Terminate paths do it: unregister_peer, peer_down;
    /// session_addrs is cleared later (Op::Cleanup / end of scenario) unless a new session came up
    EndDirect(usize),
    Up(usize),
    Announce(usize),
    Withdraw(usize),
    Replace(usize),
    /// run()'s clear_session_state of a session that ended by EndDirect
    Cleanup(usize),
}

impl Op {
    fn kind(&self) -> &'static str {
        match self {
            Op::EndFsm(_) => "end-fsm",
            Op::EndDirect(_) => "end-direct",
            Op::Up(_) => "up",
            Op::Announce(_) => "announce",
            Op::Withdraw(_) => "withdraw",
            Op::Replace(_) => "replace",
            Op::Cleanup(_) => "cleanup",
        }
    }
}

const N_PEERS: usize = 3; // 0 = anchor, 1 = P1, 2 = P2

fn peer_addr(i: usize) -> IpAddr {
    if i == 2 {
        IpAddr::V6("2001:db8:18::2".parse().unwrap())
    } else {
        IpAddr::V4(Ipv4Addr::new(10, 18, 0, 1 + i as u8))
    }
}

fn peer_asn(i: usize) -> u32 {
    if i == 2 {
        4_200_000_018
    } else {
        65100 + i as u32
    }
}

fn peer_id(i: usize) -> Ipv4Addr {
    Ipv4Addr::new(10, 18, 1, 1 + i as u8)
}

fn prefix(p: usize, j: usize) -> (Family, Nlri) {
    if j % 4 == 3 {
        (
            Family::IPV6,
            Nlri::V6(Ipv6Net {
                addr: Ipv6Addr::new(0x2001, 0xdb8, 0x18, (p * 16 + j) as u16, 0, 0, 0, 0),
                mask: 64,
            }),
        )
    } else {
        (
            Family::IPV4,
            Nlri::V4(Ipv4Net {
                addr: Ipv4Addr::new(172, 18 + p as u8, j as u8, 0),
                mask: 24,
            }),
        )
    }
}

struct World {
    global: GlobalHandle,
    tables: TableHandle,
    /// current session of a peer: (source, remote port)
    sess: Vec<Option<(Arc<table::Source>, u16)>>,
    /// a session ended by EndDirect whose session_addrs is still set
    pending_cleanup: Vec<bool>,
    /// prefixes (index into the pool) the current session has announced
    routes: Vec<BTreeSet<usize>>,
    next_port: u16,
    tag: u32,
    log: Vec<String>,
}

fn attrs(asn: u32, tag: u32) -> Arc<Vec<Attribute>> {
    let mut p = vec![2u8, 1];
    p.extend_from_slice(&asn.to_be_bytes());
    Arc::new(vec![
        Attribute::new_with_value(Attribute::ORIGIN, 0).unwrap(),
        Attribute::new_with_bin(Attribute::AS_PATH, p).unwrap(),
        Attribute::new_with_value(Attribute::MULTI_EXIT_DESC, tag).unwrap(),
    ])
}

fn open_msg(asn: u32, id: Ipv4Addr) -> bgp::Message {
    bgp::Message::Open(bgp::Open {
        as_number: asn,
        holdtime: HoldTime::new(90).unwrap(),
        router_id: u32::from(id),
        capability: vec![packet::Capability::FourOctetAsNumber(asn)],
    })
}

impl World {
    /// Applies one operation with the daemon's own calls, in the daemon's order.  Returns false if
    /// the operation does not apply in the current state (nothing is done then).
    async fn apply(&mut self, op: Op, rng: &mut Rng) -> bool {
        match op {
            Op::Up(p) => {
                if self.sess[p].is_some() {
                    return false;
                }
                self.next_port += 1;
                let port = self.next_port;
                let local: IpAddr = if peer_addr(p).is_ipv6() {
                    "2001:db8:18::1".parse().unwrap()
                } else {
                    IpAddr::V4(Ipv4Addr::new(10, 18, 0, 254))
                };
                {
                    // apply_outputs(SessionEstablished): state, then on_established() -> tables.peer_up()
                    let g = self.global.read().await;
                    let peer = g.peers.get(&peer_addr(p)).unwrap();
                    peer.state.remote_asn.store(peer_asn(p), Ordering::Relaxed);
                    peer.state
                        .remote_id
                        .store(u32::from(peer_id(p)), Ordering::Relaxed);
                    peer.state.remote_holdtime.store(90, Ordering::Relaxed);
                    peer.state.remote_cap.store(Some(Arc::new(vec![
                        packet::Capability::FourOctetAsNumber(peer_asn(p)),
                    ])));
                    peer.state
                        .peer_up_at
                        .store(1_700_000_000 + port as u64, Ordering::Relaxed);
                    peer.state.session_addrs.store(Some(Arc::new(SessionAddrs {
                        local: SocketAddr::new(local, 179),
                        remote_port: port,
                    })));
                }
                self.pending_cleanup[p] = false;
                let src = Arc::new(table::Source::new(
                    peer_addr(p),
                    local,
                    peer_asn(p),
                    LOCAL_ASN,
                    peer_id(p),
                    table::PeerRole::Ebgp,
                ));
                self.tables.peer_up(PeerUpData {
                    peer_addr: peer_addr(p),
                    peer_asn: peer_asn(p),
                    peer_id: u32::from(peer_id(p)),
                    uptime: 1_700_000_000 + port as u64,
                    local_addr: local,
                    local_port: 179,
                    remote_port: port,
                    sent_open: open_msg(LOCAL_ASN, Ipv4Addr::new(10, 18, 255, 1)),
                    received_open: open_msg(peer_asn(p), peer_id(p)),
                });
                self.sess[p] = Some((src, port));
                self.routes[p].clear();
                self.log.push(format!("up P{} (port {})", p, port));
                true
            }
            Op::EndFsm(p) | Op::EndDirect(p) => {
                let Some((src, port)) = self.sess[p].take() else {
                    return false;
                };
                let fsm = matches!(op, Op::EndFsm(_));
                if fsm {
                    let g = self.global.read().await;
                    g.peers
                        .get(&peer_addr(p))
                        .unwrap()
                        .state
                        .session_addrs
                        .store(None);
                } else {
                    self.pending_cleanup[p] = true;
                }
                // session_loop: unregister_peer (drops the families; no graceful restart), then peer_down
                self.tables
                    .unregister_peer(src.remote_addr, &[Family::IPV4, Family::IPV6], &[]);
                self.tables.peer_down(PeerDownData {
                    peer_addr: src.remote_addr,
                    peer_asn: src.remote_asn,
                    peer_id: src.router_id,
                    uptime: 1_700_000_000 + port as u64,
                    reason: packet::bmp::PeerDownReason::RemoteUnexpected,
                });
                self.routes[p].clear();
                self.log
                    .push(format!("{} P{} (port {})", op.kind(), p, port));
                true
            }
            Op::Cleanup(p) => {
                if !self.pending_cleanup[p] {
                    return false;
                }
                self.pending_cleanup[p] = false;
                // PeerSession::run(): only if no newer connection exists (e2336bb); Up() clears the flag
                let mut g = self.global.write().await;
                g.peers
                    .get_mut(&peer_addr(p))
                    .unwrap()
                    .clear_session_state();
                self.log.push(format!("cleanup P{}", p));
                true
            }
            Op::Announce(p) | Op::Replace(p) => {
                let Some((src, _)) = self.sess[p].clone() else {
                    return false;
                };
                let j = if matches!(op, Op::Replace(_)) {
                    let Some(j) = self.routes[p]
                        .iter()
                        .nth(rng.usize(self.routes[p].len().max(1)))
                        .copied()
                    else {
                        return false;
                    };
                    j
                } else {
                    let free: Vec<usize> = (0..6).filter(|j| !self.routes[p].contains(j)).collect();
                    if free.is_empty() {
                        return false;
                    }
                    *rng.pick(&free)
                };
                let (fam, nlri) = prefix(p, j);
                self.tag += 1;
                let nh = if fam == Family::IPV6 {
                    Nexthop::V6("2001:db8:18::99".parse().unwrap())
                } else {
                    Nexthop::V4(Ipv4Addr::new(10, 18, 0, 99))
                };
                self.tables.insert_route(
                    src.clone(),
                    fam,
                    PathNlri {
                        path_id: 0,
                        nlri: nlri.clone(),
                    },
                    Some(nh),
                    attrs(src.remote_asn, self.tag),
                    None,
                    self.tag,
                );
                self.routes[p].insert(j);
                self.log
                    .push(format!("{} P{} {} tag {}", op.kind(), p, nlri, self.tag));
                true
            }
            Op::Withdraw(p) => {
                let Some((src, _)) = self.sess[p].clone() else {
                    return false;
                };
                let Some(j) = self.routes[p]
                    .iter()
                    .nth(rng.usize(self.routes[p].len().max(1)))
                    .copied()
                else {
                    return false;
                };
                let (fam, nlri) = prefix(p, j);
                self.tables.remove_route(
                    src,
                    fam,
                    PathNlri {
                        path_id: 0,
                        nlri: nlri.clone(),
                    },
                    None,
                    0,
                );
                self.routes[p].remove(&j);
                self.log.push(format!("withdraw P{} {}", p, nlri));
                true
            }
        }
    }
}

fn new_global() -> Global {
    let (tx, _rx) = mpsc::unbounded_channel();
    let (bfd_tx, _bfd_rx) = mpsc::unbounded_channel();
    let mut g = Global::new(tx, bfd_tx);
    g.asn = LOCAL_ASN;
    g.router_id = Ipv4Addr::new(10, 18, 255, 1);
    for p in 0..N_PEERS {
        let params = PeerParams {
            remote_addr: peer_addr(p),
            remote_port: Global::BGP_PORT,
            expected_remote_asn: peer_asn(p),
            local_asn: 0,
            passive: true,
            rs_client: false,
            route_reflector: RouteReflectorConfig::default(),
            delete_on_disconnected: false,
            admin_down: false,
            state: SessionState::Idle,
            holdtime: PeerParams::DEFAULT_HOLD_TIME,
            connect_retry_time: PeerParams::DEFAULT_CONNECT_RETRY_TIME,
            multihop_ttl: None,
            ttl_security: None,
            password: None,
            families: FnvHashMap::default(),
            send_max: FnvHashMap::default(),
            prefix_limits: FnvHashMap::default(),
            graceful_restart: None,
            llgr: None,
            bfd_config: None,
            neighbor_interface: None,
            bind_interface: None,
            export_policy: None,
        };
        g.add_peer(params, None).unwrap();
    }
    g
}

/// the RIB's own Adj-RIB-In of one peer through its read accessors
fn rib_adj_in(tables: &TableManager, peer: IpAddr, post: bool) -> BTreeMap<RouteKey, RouteVal> {
    let mut m = BTreeMap::new();
    for shard in &tables.shards {
        let s = shard.lock().unwrap();
        for f in s.rtable.families().collect::<Vec<_>>() {
            let it: Vec<table::Reach> = if post {
                s.rtable.iter_reach_post(f).collect()
            } else {
                s.rtable.iter_reach(f).collect()
            };
            for r in it {
                if r.source.remote_addr == peer {
                    m.insert(
                        (fam_id(f), r.net.nlri.to_string(), r.net.path_id),
                        (attrs_canon(&r.attr), nh_str(&r.nexthop)),
                    );
                }
            }
        }
    }
    m
}

struct Scenario {
    /// initial state of P1 / P2: established with routes?
    init_up: [bool; 2],
    window: Vec<Op>,
    policy: crate::bmp::BmpPolicy,
    policy_name: &'static str,
}

/// all operation sequences of the given length over P1 / P2
fn sequences(len: usize) -> Vec<Vec<Op>> {
    let alphabet: Vec<Op> = (1..=2)
        .flat_map(|p| {
            [
                Op::EndFsm(p),
                Op::EndDirect(p),
                Op::Up(p),
                Op::Announce(p),
                Op::Withdraw(p),
                Op::Replace(p),
                Op::Cleanup(p),
            ]
        })
        .collect();
    let mut out: Vec<Vec<Op>> = vec![vec![]];
    for _ in 0..len {
        out = out
            .into_iter()
            .flat_map(|s| {
                alphabet.iter().map(move |o| {
                    let mut t = s.clone();
                    t.push(*o);
                    t
                })
            })
            .collect();
    }
    out
}

struct Shared {
    tables: TableHandle,
    /// duration of a subscribe(true) walk over this table (calibrated)
    walk: Duration,
}

async fn scenario(
    rep: &mut Report,
    ps: &mut Parsers,
    rng: &mut Rng,
    sh: &Shared,
    sc: &Scenario,
    sseed: u64,
) {
    let tables = sh.tables.clone();
    let global: GlobalHandle = Arc::new(tokio::sync::RwLock::new(new_global()));
    let mut w = World {
        global: global.clone(),
        tables: tables.clone(),
        sess: vec![None; N_PEERS],
        pending_cleanup: vec![false; N_PEERS],
        routes: vec![BTreeSet::new(); N_PEERS],
        next_port: 40000 + (sseed % 20000) as u16,
        tag: (sseed % 1_000_000) as u32 * 100,
        log: Vec::new(),
    };
    // ---- initial state (no station yet)
    w.apply(Op::Up(0), rng).await;
    w.apply(Op::Announce(0), rng).await;
    for p in 1..=2 {
        if sc.init_up[p - 1] {
            w.apply(Op::Up(p), rng).await;
            for _ in 0..rng.range(1, 3) {
                w.apply(Op::Announce(p), rng).await;
            }
        }
    }
    let init_log = std::mem::take(&mut w.log);

    // ---- the station; the daemon's own client connects to it and runs serve()
    let listener = match bind_retry(SocketAddr::new(IpAddr::V4(Ipv4Addr::LOCALHOST), 0)).await {
        Ok(l) => l,
        Err(e) => {
            rep.inconclusive(&format!("station listener: {}", e));
            return;
        }
    };
    let station_addr = listener.local_addr().unwrap();
    let n0 = tables.bmp_senders().len();
    let client = BmpClient::new();
    BmpClient::try_connect(
        station_addr,
        client.cancel.clone(),
        client.state.clone(),
        global.clone(),
        tables.clone(),
        sc.policy,
    );
    let Ok(Ok((mut sock, _))) =
        tokio::time::timeout(Duration::from_secs(10), listener.accept()).await
    else {
        rep.inconclusive("the daemon's BMP client did not connect within 10 s");
        client.cancel.cancel();
        return;
    };
    no_time_wait(&sock);
    let buf = Arc::new(std::sync::Mutex::new(Vec::<u8>::new()));
    let b2 = buf.clone();
    let reader = tokio::spawn(async move {
        let mut tmp = vec![0u8; 1 << 16];
        loop {
            match sock.read(&mut tmp).await {
                Ok(0) | Err(_) => return,
                Ok(n) => b2.lock().unwrap().extend_from_slice(&tmp[..n]),
            }
        }
    });
    // the subscriber is registered at the start of subscribe(true); the shard walk follows
    let t0 = Instant::now();
    while tables.bmp_senders().len() <= n0 {
        if t0.elapsed() > Duration::from_secs(10) {
            rep.inconclusive("serve() did not subscribe within 10 s");
            reader.abort();
            client.cancel.cancel();
            return;
        }
        tokio::task::yield_now().await;
    }
    let t_reg = Instant::now();
    // a quarter of the scenarios start late: the operations then straddle the end of the walk and the time
    // serve() needs to drain the snapshot before it reads Global (live events of a session that is gone by then)
    let late = rng.chance(1, 4);
    if late {
        let us = sh.walk.as_micros() as u64;
        tokio::time::sleep(Duration::from_micros(rng.range(us * 5 / 10, us * 14 / 10))).await;
    }
    // ---- the window
    let mut applied: Vec<Op> = Vec::new();
    let straddle: Vec<Op>;
    let window: &Vec<Op> = if late && rng.bool() {
        // live route events of a session that then ends before serve() has read Global
        let p = rng.range(1, 2) as usize;
        straddle = vec![
            Op::Up(p),
            Op::Announce(p),
            Op::Announce(p),
            Op::Replace(p),
            if rng.bool() {
                Op::EndFsm(p)
            } else {
                Op::EndDirect(p)
            },
        ];
        &straddle
    } else {
        &sc.window
    };
    for op in window {
        if w.apply(*op, rng).await {
            applied.push(*op);
        }
    }
    // Probe: a PeerUp event of an address that is no peer of this Global.  serve() consumes (and drops) it in
    // its snapshot phase if it was queued before EndOfSnapshot, and forwards it as a live event otherwise: if the
    // station never reads a PeerUp of that address, the probe and everything injected before it were queued
    // while the snapshot was being taken.
    let probe_addr = IpAddr::V4(Ipv4Addr::new(10, 18, 0, 77));
    tables.peer_up(PeerUpData {
        peer_addr: probe_addr,
        peer_asn: 65177,
        peer_id: u32::from(Ipv4Addr::new(10, 18, 1, 77)),
        uptime: 1,
        local_addr: IpAddr::V4(Ipv4Addr::new(10, 18, 0, 254)),
        local_port: 179,
        remote_port: 1,
        sent_open: open_msg(LOCAL_ASN, Ipv4Addr::new(10, 18, 255, 1)),
        received_open: open_msg(65177, Ipv4Addr::new(10, 18, 1, 77)),
    });
    let _ = t_reg;
    let window_log = std::mem::take(&mut w.log);
    // ---- after the window (the station has been sent something): a few more operations, the clean-ups run()
    // would do, one last route per established peer, the anchor's marker
    let t1 = Instant::now();
    while buf.lock().unwrap().len() < 200 && t1.elapsed() < sh.walk * 4 + Duration::from_millis(20)
    {
        tokio::time::sleep(Duration::from_micros(300)).await;
    }
    for _ in 0..rng.below(4) {
        let p = rng.range(1, 2) as usize;
        let op = *rng.pick(&[
            Op::EndFsm(p),
            Op::EndDirect(p),
            Op::Up(p),
            Op::Announce(p),
            Op::Withdraw(p),
            Op::Replace(p),
            Op::Cleanup(p),
        ]);
        w.apply(op, rng).await;
    }
    for p in 1..=2 {
        w.apply(Op::Cleanup(p), rng).await;
        if w.sess[p].is_some() {
            if !w.apply(Op::Announce(p), rng).await {
                w.apply(Op::Replace(p), rng).await;
            }
        }
    }
    let post_log = std::mem::take(&mut w.log);
    // the marker: a fresh route of the anchor (established since before the station connected)
    w.tag += 1;
    let marker_tag = w.tag;
    let (src0, _) = w.sess[0].clone().unwrap();
    let mnlri = Nlri::V4(Ipv4Net {
        addr: Ipv4Addr::new(172, 17, 255, 0),
        mask: 24,
    });
    tables.insert_route(
        src0.clone(),
        Family::IPV4,
        PathNlri {
            path_id: 0,
            nlri: mnlri.clone(),
        },
        Some(Nexthop::V4(Ipv4Addr::new(10, 18, 0, 99))),
        attrs(src0.remote_asn, marker_tag),
        None,
        marker_tag,
    );
    let mut marker_canon = attrs_canon(&attrs(src0.remote_asn, marker_tag));
    let mut round = 0;

    // ---- read the station's stream until the marker is there (in every subscribed view)
    let want_pre = matches!(sc.policy_name, "pre" | "both" | "all");
    let want_post = matches!(sc.policy_name, "post" | "both" | "all");
    let mut codec = PeerCodec::new();
    codec.extended_length = true;
    for (f, _) in FAMILIES {
        codec.set_family(*f, FamilyState::default());
    }
    let t0 = Instant::now();
    let mut verdict: Option<(String, String, String)> = None; // (signature tail, what, detail)
    let mut order: Vec<(String, u64)> = Vec::new();
    let mut done = false;
    let mut folds: BTreeMap<(IpAddr, u8), BTreeMap<RouteKey, RouteVal>> = BTreeMap::new();
    let mut open: BTreeSet<IpAddr> = BTreeSet::new();
    while !done && t0.elapsed() < Duration::from_secs(10) {
        let data = buf.lock().unwrap().clone();
        // re-fold from the start (streams are short)
        folds.clear();
        open.clear();
        order.clear();
        verdict = None;
        let mut log = |order: &mut Vec<(String, u64)>, e: String| match order.last_mut() {
            Some((l, n)) if *l == e => *n += 1,
            _ => order.push((e, 1)),
        };
        let mut o = 0usize;
        while data.len() - o >= 6 {
            if data[o] != 3 {
                verdict = Some((
                    "stream-not-well-formed (C19's)".into(),
                    "BMP stream framing".into(),
                    format!("offset {}", o),
                ));
                break;
            }
            let l =
                u32::from_be_bytes([data[o + 1], data[o + 2], data[o + 3], data[o + 4]]) as usize;
            if l < 6 || data.len() - o < l {
                break;
            }
            let (typ, body) = (data[o + 5], &data[o + 6..o + l]);
            o += l;
            if typ == 4 || body.len() < 42 {
                continue;
            }
            let Ok(h) = read_peer_header(body) else {
                continue;
            };
            if h.ptype != 0 {
                continue;
            }
            let a = h.addr();
            match typ {
                3 => {
                    open.insert(a);
                    let rport = if body.len() >= 62 {
                        u16::from_be_bytes([body[60], body[61]])
                    } else {
                        0
                    };
                    log(&mut order, format!("PeerUp {} (remote port {})", a, rport));
                }
                2 => {
                    log(&mut order, format!("PeerDown {}", a));
                    folds.retain(|k, _| k.0 != a);
                    if !open.remove(&a) && verdict.is_none() {
                        verdict = Some(("C18/peer-tracking/peer-down-without-peer-up".into(), "a PeerDown reached the station for a peer that has no open PeerUp on this stream".into(), format!("peer {}", a)));
                    }
                }
                0 if h.flags & 0x10 == 0 => {
                    let view = h.flags & 0x40;
                    let (pdus, err) = split_pdus(&body[42..]);
                    if err.is_some() {
                        continue;
                    }
                    for pdu in pdus {
                        let Ok(Ok(ParsedMessage::Update(ParsedUpdate::Routes {
                            reach,
                            mp_reach,
                            unreach,
                            mp_unreach,
                            attrs,
                            ..
                        }))) = guard(|| codec.parse_message(pdu))
                        else {
                            continue;
                        };
                        let canon = attrs_canon(&attrs);
                        let fold = folds.entry((a, view)).or_default();
                        let mut what = "withdraw";
                        for r in reach.into_iter().chain(mp_reach) {
                            what = "reach";
                            for e in r.entries {
                                fold.insert(
                                    (fam_id(r.family), e.nlri.to_string(), e.path_id),
                                    (canon.clone(), nh_str(&r.nexthop)),
                                );
                            }
                        }
                        for wd in unreach.into_iter().chain(mp_unreach) {
                            for e in wd.entries {
                                fold.remove(&(fam_id(wd.family), e.nlri.to_string(), e.path_id));
                            }
                        }
                        log(
                            &mut order,
                            format!(
                                "RouteMonitoring {} {}{}",
                                a,
                                what,
                                if open.contains(&a) {
                                    ""
                                } else {
                                    " [no PeerUp open for this peer]"
                                }
                            ),
                        );
                    }
                }
                _ => {}
            }
        }
        let mk: RouteKey = (fam_id(Family::IPV4), mnlri.to_string(), 0);
        let seen = |v: u8| {
            folds
                .get(&(peer_addr(0), v))
                .and_then(|m| m.get(&mk))
                .is_some_and(|x| x.0 == marker_canon)
        };
        let hit = (!want_pre || seen(0)) && (!want_post || seen(0x40));
        if hit && round == 0 {
            // the first marker may still be part of the snapshot flush (arbitrary order, per peer and view); now
            // that it is on the wire serve() is past its snapshot phase: a second marker is a live event that
            // follows everything sent before
            round = 1;
            w.tag += 1;
            let t2 = w.tag;
            tables.insert_route(
                src0.clone(),
                Family::IPV4,
                PathNlri {
                    path_id: 0,
                    nlri: mnlri.clone(),
                },
                Some(Nexthop::V4(Ipv4Addr::new(10, 18, 0, 99))),
                attrs(src0.remote_asn, t2),
                None,
                t2,
            );
            marker_canon = attrs_canon(&attrs(src0.remote_asn, t2));
        } else if hit {
            done = true;
        }
        if !done {
            tokio::time::sleep(Duration::from_millis(1)).await;
        }
    }
    let in_window = !open.contains(&probe_addr)
        && !order
            .iter()
            .any(|(e, _)| e.starts_with(&format!("PeerUp {} ", probe_addr)));
    // ---- judge
    let ctx = |extra: Vec<(&str, Json)>| {
        let mut v = vec![
            ("policy", Json::s(sc.policy_name)),
            ("initial", Json::strs(init_log.iter().cloned())),
            (
                "during_the_snapshot",
                Json::strs(window_log.iter().cloned()),
            ),
            (
                "all_injected_before_EndOfSnapshot (probe PeerUp not forwarded)",
                Json::Bool(in_window),
            ),
            ("afterwards", Json::strs(post_log.iter().cloned())),
            (
                "read_by_station_in_order (pre and post views together)",
                Json::strs(order.iter().take(60).map(|(e, n)| {
                    if *n > 1 {
                        format!("{} x{}", e, n)
                    } else {
                        e.clone()
                    }
                })),
            ),
            ("scenario_seed", Json::Int(sseed as i128)),
        ];
        v.extend(extra);
        Json::obj(v)
    };
    rep.eval();
    if !done {
        rep.count("unjudged:stalled-scenario-marker-not-seen-within-10s");
        if rep
            .counters
            .get("unjudged:stalled-scenario-marker-not-seen-within-10s")
            .copied()
            .unwrap_or(0)
            > 5
        {
            rep.inconclusive(
                "watchdog: the anchor's marker did not reach the station in several scenarios",
            );
        }
    } else if let Some((sig, what, d)) = verdict.clone().filter(|v| v.0.starts_with("C18/")) {
        rep.violation(&sig, &what, ctx(vec![("detail", Json::s(d))]));
    } else if verdict.is_some() {
        rep.count("unjudged:stalled-scenario-stream-not-well-formed");
    } else {
        let empty: BTreeMap<RouteKey, RouteVal> = BTreeMap::new();
        let g = global.read().await;
        for p in 0..N_PEERS {
            let established = g
                .peers
                .get(&peer_addr(p))
                .unwrap()
                .state
                .session_addrs
                .load()
                .is_some();
            for (want, view, vname) in [(want_pre, 0u8, "pre"), (want_post, 0x40u8, "post")] {
                if !want {
                    continue;
                }
                rep.eval();
                let expected = if established {
                    rib_adj_in(&tables, peer_addr(p), view != 0)
                } else {
                    BTreeMap::new()
                };
                let got = folds.get(&(peer_addr(p), view)).unwrap_or(&empty);
                if *got == expected {
                    rep.count(if established {
                        "stalled:rib-view-equal/established-peer"
                    } else {
                        "stalled:rib-view-equal/departed-peer"
                    });
                    continue;
                }
                let missing: Vec<String> = expected
                    .iter()
                    .filter(|(k, v)| got.get(*k) != Some(*v))
                    .take(5)
                    .map(|(k, _)| format!("{:?}", k))
                    .collect();
                let surplus: Vec<String> = got
                    .keys()
                    .filter(|k| !expected.contains_key(*k))
                    .take(5)
                    .map(|k| format!("{:?}", k))
                    .collect();
                let sig = if !missing.is_empty() {
                    "C18/bmp-station/adj-rib-in-differs"
                } else if !established && !open.contains(&peer_addr(p)) {
                    "C18/bmp-station/routes-of-departed-peer"
                } else {
                    "C18/bmp-station/peer-down-never-delivered"
                };
                let what = if !missing.is_empty() {
                    "routes the RIB holds for an established peer never reached the BMP station (missing from both its snapshot and its live stream) or differ"
                } else {
                    "the BMP station ends with routes of a session that has ended (the RIB no longer holds them)"
                };
                rep.violation(
                    sig,
                    what,
                    ctx(vec![
                        (
                            "peer",
                            Json::s(format!(
                                "P{} {} ({})",
                                p,
                                peer_addr(p),
                                if established {
                                    "established at the end"
                                } else {
                                    "no session at the end"
                                }
                            )),
                        ),
                        ("view", Json::s(vname)),
                        ("rib_holds", Json::Int(expected.len() as i128)),
                        ("station_holds", Json::Int(got.len() as i128)),
                        (
                            "station_has_open_peer_up",
                            Json::Bool(open.contains(&peer_addr(p))),
                        ),
                        ("rib_only_or_differing", Json::strs(missing)),
                        ("station_only", Json::strs(surplus)),
                    ]),
                );
            }
            if established && !open.contains(&peer_addr(p)) {
                rep.count("stalled:established-peer-without-open-peer-up");
            }
        }
        rep.count("stalled:scenarios-judged");
        // what was exercised
        rep.count(if in_window {
            "stalled:scenarios-inside-window"
        } else {
            "stalled:scenarios-window-missed"
        });
        if late {
            rep.count(if in_window {
                "stalled:late-start-still-inside-window"
            } else {
                "stalled:late-start-straddling-the-end-of-the-window"
            });
        }
        if in_window {
            for op in &applied {
                rep.count(&format!("stalled:in-window/{}", op.kind()));
            }
            for p in 1..=2 {
                let ends = applied
                    .iter()
                    .position(|o| matches!(o, Op::EndFsm(q) | Op::EndDirect(q) if *q == p));
                if let Some(i) = ends {
                    if applied[i..].iter().any(|o| *o == Op::Up(p)) {
                        rep.count("stalled:flap-inside-window");
                        if applied[i..]
                            .iter()
                            .any(|o| matches!(o, Op::Announce(q) if *q == p))
                        {
                            rep.count("stalled:flap-inside-window-then-route");
                        }
                    }
                }
            }
            let mut h = format!("{:?}{:?}{}", sc.init_up, applied, sc.policy_name);
            h.push_str(&format!(
                "{:?}",
                order
                    .iter()
                    .map(|(e, _)| e.split(" (").next().unwrap_or("").to_string())
                    .collect::<Vec<_>>()
            ));
            rep.nontrivial(fnv64(h.as_bytes()));
        }
        if rep.want_sample() && !applied.is_empty() {
            rep.sample(ctx(vec![("verdict", Json::s("held"))]));
        }
    }
    // ---- teardown: the harness end first (RST), then the client; the peers' routes leave the shared table
    reader.abort();
    let _ = reader.await;
    client.cancel.cancel();
    for p in 0..N_PEERS {
        tables.unregister_peer(peer_addr(p), &[Family::IPV4, Family::IPV6], &[]);
    }
    // serve() unsubscribes when it sees the cancellation (unless its future was dropped first)
    let t0 = Instant::now();
    while tables.bmp_senders().len() > n0 && t0.elapsed() < Duration::from_millis(15) {
        tokio::time::sleep(Duration::from_millis(1)).await;
    }
}

fn build_shared(rng: &mut Rng, ballast: usize) -> Shared {
    let shards = *rng.pick(&[4usize, 8]);
    let tables: TableHandle = Arc::new(TableManager::new(shards));
    // ballast: routes of a source that is no peer of the Global (walked by subscribe(true), never reported)
    let src = Arc::new(table::Source::new(
        IpAddr::V4(Ipv4Addr::new(10, 99, 0, 1)),
        IpAddr::V4(Ipv4Addr::new(10, 99, 0, 254)),
        64999,
        LOCAL_ASN,
        Ipv4Addr::new(10, 99, 0, 1),
        table::PeerRole::Ebgp,
    ));
    let a = attrs(64999, 1);
    for i in 0..ballast {
        let nlri = Nlri::V4(Ipv4Net {
            addr: Ipv4Addr::new(30 + (i >> 16) as u8, (i >> 8) as u8, i as u8, 0),
            mask: 24,
        });
        tables.insert_route(
            src.clone(),
            Family::IPV4,
            PathNlri { path_id: 0, nlri },
            Some(Nexthop::V4(Ipv4Addr::new(10, 99, 0, 1))),
            a.clone(),
            None,
            0,
        );
    }
    // calibration: how long does the walk of a snapshot take on this table?
    let mut best = Duration::from_secs(3600);
    for _ in 0..3 {
        let t = Instant::now();
        let sub = tables.subscribe(true);
        let d = t.elapsed();
        tables.unsubscribe(sub.id);
        drop(sub);
        best = best.min(d);
    }
    Shared { tables, walk: best }
}

#[test]
fn run() {
    let params = Params::from_args_env();
    let mut rep = Report::new("C18", &params);
    rep.extra("rule_stalled", Json::s("case = one station stream of a scenario in which a short sequence of session / route operations is executed while the station's snapshot is being taken, compared per peer and view with the RIB; non-trivial = every injected operation was queued before EndOfSnapshot (a probe PeerUp event sent after the last one was consumed by the snapshot phase, not forwarded); distinct by (initial state, applied operations, policy, order of message kinds read)"));
    let mut ps = Parsers::new();
    let mut rng = Rng::new(params.seed ^ 0xC18_5000);
    let Ok(rt) = tokio::runtime::Builder::new_multi_thread()
        .worker_threads(2)
        .enable_all()
        .build()
    else {
        rep.inconclusive("cannot build a tokio runtime");
        let _ = rep.finish();
        return;
    };
    let ballast = params.get_u64("ballast", 8000) as usize;
    let mut sh = build_shared(&mut rng, ballast);
    rep.max("stalled-walk-us", sh.walk.as_micros() as u64);
    // exhaustive sequences up to length 3, dealt over the shards / seeds of a run; random ones beyond
    let mut all: Vec<Vec<Op>> = Vec::new();
    for l in 1..=3 {
        all.extend(sequences(l));
    }
    rng.shuffle(&mut all);
    let n_exh = params.n(170, 1600) as usize;
    let n_rand = params.n(90, 900) as usize;
    let policies = [
        (crate::bmp::BmpPolicy::Both, "both"),
        (crate::bmp::BmpPolicy::Both, "both"),
        (crate::bmp::BmpPolicy::Pre, "pre"),
        (crate::bmp::BmpPolicy::Post, "post"),
        (crate::bmp::BmpPolicy::All, "all"),
    ];
    let mut k = 0usize;
    while k < n_exh + n_rand && rep.in_budget() {
        let window: Vec<Op> = if k < n_exh {
            all[k % all.len()].clone()
        } else if rng.chance(1, 3) {
            // a flap while the snapshot is taken: the mark a session's end leaves must not outlive that session
            let p = rng.range(1, 2) as usize;
            let mut v = vec![
                if rng.bool() {
                    Op::EndFsm(p)
                } else {
                    Op::EndDirect(p)
                },
                Op::Up(p),
            ];
            for _ in 0..rng.below(3) {
                v.push(*rng.pick(&[
                    Op::Announce(p),
                    Op::Replace(p),
                    Op::Withdraw(p),
                    Op::Announce(3 - p),
                ]));
            }
            v
        } else {
            let len = rng.range(4, 7) as usize;
            (0..len)
                .map(|_| {
                    let p = rng.range(1, 2) as usize;
                    *rng.pick(&[
                        Op::EndFsm(p),
                        Op::EndDirect(p),
                        Op::Up(p),
                        Op::Up(p),
                        Op::Up(p),
                        Op::Announce(p),
                        Op::Withdraw(p),
                        Op::Replace(p),
                        Op::Cleanup(p),
                    ])
                })
                .collect()
        };
        let (policy, policy_name) = *rng.pick(&policies);
        // a sequence that starts with the end of a session needs that session
        let mut init_up = [rng.chance(3, 4), rng.chance(1, 2)];
        if let Some(Op::EndFsm(p) | Op::EndDirect(p)) = window.first() {
            init_up[*p - 1] = true;
        }
        let sc = Scenario {
            init_up,
            window,
            policy,
            policy_name,
        };
        let sseed = rng.next_u64();
        rt.block_on(scenario(
            &mut rep,
            &mut ps,
            &mut Rng::new(sseed),
            &sh,
            &sc,
            sseed,
        ));
        rep.count(if k < n_exh {
            "stalled:scenarios-enumerated"
        } else {
            "stalled:scenarios-random"
        });
        k += 1;
        // subscribers whose serve() future was dropped before it unsubscribed stay registered (closed channel):
        // start over with a fresh table now and then
        if sh.tables.bmp_senders().len() > 8 {
            rep.count("stalled:table-rebuilt-because-of-leftover-subscribers");
            sh = build_shared(&mut rng, ballast);
        }
    }
    let _ = rep.finish();
}
