//! C01 — every neighbour's view converges to export(Loc-RIB); no withdrawal is lost.
//!
//! Real `TableManager` + real `PeerSession` (new_for_test, then configured) with
//! the real `on_established` / `handle_prefix_update` / `do_route_refresh` /
//! `flush_tx` over a loopback TCP pair.  The bytes read from the client end are
//! decoded by an independent peer-side codec into a mirror Adj-RIB-In.  At every
//! check point (quiescent: all change events delivered, pending flushed, socket
//! drained) a brand-new session with identical parameters is established against
//! the same RIB; what it is sent must equal the mirror.  The brand-new session
//! then becomes the observer of the next epoch.
use super::super::*;
use super::common::*;
use bytes::BytesMut;
use std::collections::BTreeMap;
use std::net::{IpAddr, Ipv4Addr, Ipv6Addr, SocketAddr};
use tokio::net::{TcpListener, TcpStream};

pub(super) type Key = (u32, String, u32); // (family, nlri, path id)
pub(super) type Val = (String, String); // (attributes by content, next hop)

pub(super) fn fam_id(f: Family) -> u32 {
    ((f.afi() as u32) << 16) | f.safi() as u32
}

pub(super) fn render_attrs(a: &[packet::Attribute]) -> String {
    let mut v: Vec<String> = a
        .iter()
        .map(|x| format!("{}:{}", x.code(), hex(&x.encode_to_bytes())))
        .collect();
    v.sort();
    v.join(",")
}

// ------------------------------------------------------------------ configuration

#[derive(Clone, Debug)]
pub(super) struct ObsCfg {
    pub(super) v6: bool,
    pub(super) role: PeerRole,
    pub(super) cluster_id: Option<Ipv4Addr>,
    pub(super) confed_id: u32,
    pub(super) addpath: bool,
    pub(super) send_max: usize,
    pub(super) as4: bool,
    pub(super) shards: usize,
    /// the observer is itself a source of routes (echo filtering inside the window)
    pub(super) obs_is_source: bool,
    /// RIB-side operations are issued from several OS threads (one per group of source
    /// peers, per-peer order preserved) with delay injection at the table_manager hook
    /// points, while the observer keeps delivering / flushing on this thread
    pub(super) concurrent: bool,
    /// (with `concurrent`) the observing neighbour's session comes up (initial dump +
    /// registration of its event channel, `on_established`) while source threads are in
    /// the middle of a burst of RIB operations, on a RIB that already holds routes
    pub(super) late_join: bool,
}

pub(super) const LOCAL_ASN: u32 = 65000;
pub(super) const N_PEERS: usize = 4; // peer 0 is the observer's own address when obs_is_source
pub(super) const N_PFX: usize = 8;
pub(super) const N_ATTR: usize = 6;

pub(super) fn obs_addr() -> IpAddr {
    IpAddr::V4(Ipv4Addr::new(192, 0, 2, 9))
}

pub(super) fn peer_addr(i: usize) -> IpAddr {
    if i == 0 {
        obs_addr()
    } else {
        IpAddr::V4(Ipv4Addr::new(192, 0, 2, 20 + i as u8))
    }
}

pub(super) fn peer_role(i: usize, cfg: &ObsCfg) -> PeerRole {
    match i {
        0 => cfg.role,
        1 => PeerRole::Ebgp,
        2 => PeerRole::Ibgp,
        _ => {
            if cfg.role == PeerRole::RsClient {
                PeerRole::RsClient
            } else if cfg.cluster_id.is_some() {
                PeerRole::IbgpRrClient
            } else {
                PeerRole::Ebgp
            }
        }
    }
}

pub(super) fn peer_asn(role: PeerRole, i: usize) -> u32 {
    match role {
        PeerRole::Ibgp | PeerRole::IbgpRrClient => LOCAL_ASN,
        PeerRole::ConfedEbgp => 65100 + i as u32,
        _ => 65001 + i as u32,
    }
}

pub(super) fn family(cfg: &ObsCfg) -> Family {
    if cfg.v6 { Family::IPV6 } else { Family::IPV4 }
}

pub(super) fn prefix(cfg: &ObsCfg, i: usize) -> packet::Nlri {
    if cfg.v6 {
        packet::Nlri::V6(bgp::Ipv6Net {
            addr: Ipv6Addr::new(0x2001, 0xdb8, i as u16, 0, 0, 0, 0, 0),
            mask: 48,
        })
    } else {
        packet::Nlri::V4(bgp::Ipv4Net {
            addr: Ipv4Addr::new(10, i as u8, 0, 0),
            mask: 16,
        })
    }
}

pub(super) fn nexthop(cfg: &ObsCfg, i: usize) -> bgp::Nexthop {
    if cfg.v6 && i % 2 == 1 {
        // the 32-byte global + link-local form (RFC 2545): same global address as the
        // plain form would have, so a replacement can differ in the link-local half only
        return bgp::Nexthop::V6LinkLocal(
            Ipv6Addr::new(0x2001, 0xdb8, 0xffff, 0, 0, 0, 0, 1),
            Ipv6Addr::new(0xfe80, 0, 0, 0, 0, 0, 0, 1 + i as u16),
        );
    }
    if cfg.v6 {
        bgp::Nexthop::V6(Ipv6Addr::new(
            0x2001,
            0xdb8,
            0xffff,
            0,
            0,
            0,
            0,
            1 + i as u16,
        ))
    } else {
        bgp::Nexthop::V4(Ipv4Addr::new(192, 0, 2, 101 + i as u8))
    }
}

pub(super) fn as_path(asns: &[u32]) -> packet::Attribute {
    let mut b = vec![2u8, asns.len() as u8];
    for a in asns {
        b.extend_from_slice(&a.to_be_bytes());
    }
    packet::Attribute::new_with_bin(packet::Attribute::AS_PATH, b).unwrap()
}

/// A small pool of attribute sets; several have equal preference so that ties,
/// replacements and rank changes all occur.
pub(super) fn attr_pool(tag_base: u32) -> Vec<Arc<Vec<packet::Attribute>>> {
    let origin = |v| packet::Attribute::new_with_value(packet::Attribute::ORIGIN, v).unwrap();
    let med = |v| packet::Attribute::new_with_value(packet::Attribute::MULTI_EXIT_DESC, v).unwrap();
    let lp = |v| packet::Attribute::new_with_value(packet::Attribute::LOCAL_PREF, v).unwrap();
    let comm = |v: &[u32]| {
        let mut b = Vec::new();
        for c in v {
            b.extend_from_slice(&c.to_be_bytes());
        }
        packet::Attribute::new_with_bin(packet::Attribute::COMMUNITY, b).unwrap()
    };
    vec![
        Arc::new(vec![origin(0), as_path(&[64900]), med(tag_base)]),
        Arc::new(vec![origin(0), as_path(&[64900, 64901]), med(tag_base + 1)]),
        Arc::new(vec![
            origin(0),
            as_path(&[64902]),
            lp(200),
            med(tag_base + 2),
        ]),
        Arc::new(vec![
            origin(1),
            as_path(&[64903]),
            comm(&[0xfde8_0001]),
            med(tag_base + 3),
        ]),
        // NO_LLGR community: must be dropped when the LLGR period starts
        Arc::new(vec![
            origin(0),
            as_path(&[64904]),
            comm(&[0xffff_0007]),
            med(tag_base + 4),
        ]),
        Arc::new(vec![origin(2), as_path(&[64900]), med(tag_base + 5)]),
    ]
}

pub(super) fn export_policies(cfg: &ObsCfg) -> Vec<Option<Arc<table::PolicyAssignment>>> {
    let mut out: Vec<Option<Arc<table::PolicyAssignment>>> = vec![None];
    let pfx = |i: usize| {
        if cfg.v6 {
            table::PrefixConfig {
                ip_prefix: format!("2001:db8:{:x}::/48", i),
                mask_length_min: 48,
                mask_length_max: 48,
            }
        } else {
            table::PrefixConfig {
                ip_prefix: format!("10.{}.0.0/16", i),
                mask_length_min: 16,
                mask_length_max: 16,
            }
        }
    };
    // reject two prefixes
    {
        let mut pt = table::PolicyTable::new();
        pt.add_defined_set(table::DefinedSetConfig::Prefix {
            name: "ps".into(),
            prefixes: vec![pfx(0), pfx(3)],
        })
        .unwrap();
        pt.add_statement(
            "rej",
            vec![table::ConditionConfig::PrefixSet(
                "ps".into(),
                table::MatchOption::Any,
            )],
            Some(table::Disposition::Reject),
            table::Actions::default(),
        )
        .unwrap();
        pt.add_policy("p", vec!["rej".into()]).unwrap();
        out.push(Some(
            pt.build_assignment(
                None,
                "x",
                table::PolicyDirection::Export,
                table::Disposition::Accept,
                vec!["p".into()],
            )
            .unwrap(),
        ));
    }
    // set MED 777 on everything
    {
        let mut pt = table::PolicyTable::new();
        let actions = table::Actions {
            med: Some(table::MedAction {
                action_type: table::MedActionType::Replace,
                value: 777,
            }),
            ..Default::default()
        };
        pt.add_statement("med", vec![], Some(table::Disposition::Accept), actions)
            .unwrap();
        pt.add_policy("p", vec!["med".into()]).unwrap();
        out.push(Some(
            pt.build_assignment(
                None,
                "x",
                table::PolicyDirection::Export,
                table::Disposition::Accept,
                vec!["p".into()],
            )
            .unwrap(),
        ));
    }
    // reject routes whose origin attribute is EGP (attribute set 3) — policy on path content
    {
        let mut pt = table::PolicyTable::new();
        pt.add_statement(
            "o",
            vec![table::ConditionConfig::Origin(1)],
            Some(table::Disposition::Reject),
            table::Actions::default(),
        )
        .unwrap();
        pt.add_policy("p", vec!["o".into()]).unwrap();
        out.push(Some(
            pt.build_assignment(
                None,
                "x",
                table::PolicyDirection::Export,
                table::Disposition::Accept,
                vec!["p".into()],
            )
            .unwrap(),
        ));
    }
    out
}

pub(super) fn import_policies(cfg: &ObsCfg) -> Vec<Option<Arc<table::PolicyAssignment>>> {
    let mut out: Vec<Option<Arc<table::PolicyAssignment>>> = vec![None];
    let pfx = |i: usize| {
        if cfg.v6 {
            table::PrefixConfig {
                ip_prefix: format!("2001:db8:{:x}::/48", i),
                mask_length_min: 48,
                mask_length_max: 48,
            }
        } else {
            table::PrefixConfig {
                ip_prefix: format!("10.{}.0.0/16", i),
                mask_length_min: 16,
                mask_length_max: 16,
            }
        }
    };
    {
        let mut pt = table::PolicyTable::new();
        pt.add_defined_set(table::DefinedSetConfig::Prefix {
            name: "ps".into(),
            prefixes: vec![pfx(1), pfx(2)],
        })
        .unwrap();
        pt.add_statement(
            "rej",
            vec![table::ConditionConfig::PrefixSet(
                "ps".into(),
                table::MatchOption::Any,
            )],
            Some(table::Disposition::Reject),
            table::Actions::default(),
        )
        .unwrap();
        pt.add_policy("p", vec!["rej".into()]).unwrap();
        out.push(Some(
            pt.build_assignment(
                None,
                "i",
                table::PolicyDirection::Import,
                table::Disposition::Accept,
                vec!["p".into()],
            )
            .unwrap(),
        ));
    }
    {
        let mut pt = table::PolicyTable::new();
        let actions = table::Actions {
            local_pref: Some(table::LocalPrefAction { value: 300 }),
            ..Default::default()
        };
        pt.add_statement(
            "lp",
            vec![table::ConditionConfig::Origin(2)],
            Some(table::Disposition::Accept),
            actions,
        )
        .unwrap();
        pt.add_policy("p", vec!["lp".into()]).unwrap();
        out.push(Some(
            pt.build_assignment(
                None,
                "i",
                table::PolicyDirection::Import,
                table::Disposition::Accept,
                vec!["p".into()],
            )
            .unwrap(),
        ));
    }
    out
}

// ------------------------------------------------------------------ operations

#[derive(Clone, Debug, PartialEq)]
pub(super) enum Op {
    Announce {
        peer: usize,
        pfx: usize,
        pid: u32,
        attr: usize,
        nh: usize,
    },
    Withdraw {
        peer: usize,
        pfx: usize,
        pid: u32,
    },
    PeerDown {
        peer: usize,
    },
    GrDown {
        peer: usize,
    },
    GrUp {
        peer: usize,
    },
    StalePurge {
        peer: usize,
    },
    LlgrMark {
        peer: usize,
    },
    LlgrPurge {
        peer: usize,
    },
    NhFlap {
        nh: usize,
        reachable: bool,
    },
    ExportPolicy {
        idx: usize,
    },
    ImportPolicy {
        idx: usize,
        peer: usize,
    },
    RouteRefresh,
    Deliver {
        k: usize,
    },
    Flush,
    Check,
}

impl Op {
    pub(super) fn kind(&self) -> &'static str {
        match self {
            Op::Announce { .. } => "announce",
            Op::Withdraw { .. } => "withdraw",
            Op::PeerDown { .. } => "peer-down",
            Op::GrDown { .. } => "gr-down",
            Op::GrUp { .. } => "gr-up",
            Op::StalePurge { .. } => "stale-purge",
            Op::LlgrMark { .. } => "llgr-mark",
            Op::LlgrPurge { .. } => "llgr-purge",
            Op::NhFlap { .. } => "nexthop-flap",
            Op::ExportPolicy { .. } => "export-policy+soft-reset-out",
            Op::ImportPolicy { .. } => "import-policy+soft-reset-in",
            Op::RouteRefresh => "route-refresh",
            Op::Deliver { .. } => "deliver",
            Op::Flush => "flush",
            Op::Check => "check",
        }
    }
}

pub(super) fn gen_ops(rng: &mut Rng, cfg: &ObsCfg, n: usize) -> Vec<Op> {
    let mut ops = Vec::new();
    let first_peer = if cfg.obs_is_source { 0 } else { 1 };
    let pick_peer = |rng: &mut Rng| first_peer + rng.usize(N_PEERS - first_peer);
    // profile: which region of the space this history leans on
    let profile = rng.below(6);
    let mut last_withdraw: Option<usize> = None;
    for _ in 0..n {
        let k = rng.below(100);
        let op = if k < 30 {
            Op::Announce {
                peer: pick_peer(rng),
                pfx: rng.usize(N_PFX),
                pid: if cfg.addpath { rng.below(2) as u32 } else { 0 },
                attr: rng.usize(N_ATTR),
                nh: rng.usize(2),
            }
        } else if k < 50 {
            let pfx = rng.usize(N_PFX);
            last_withdraw = Some(pfx);
            Op::Withdraw {
                peer: pick_peer(rng),
                pfx,
                pid: if cfg.addpath { rng.below(2) as u32 } else { 0 },
            }
        } else if k < 66 {
            Op::Deliver {
                k: rng.range(1, 6) as usize,
            }
        } else if k < 76 {
            Op::Flush
        } else {
            match profile {
                0 => {
                    // id recycling: withdraw P, then announce a different prefix, no flush in between
                    match last_withdraw.take() {
                        Some(p) => Op::Announce {
                            peer: pick_peer(rng),
                            pfx: (p + 1 + rng.usize(N_PFX - 1)) % N_PFX,
                            pid: 0,
                            attr: rng.usize(N_ATTR),
                            nh: 0,
                        },
                        None => Op::Withdraw {
                            peer: pick_peer(rng),
                            pfx: rng.usize(N_PFX),
                            pid: 0,
                        },
                    }
                }
                1 => match rng.below(5) {
                    0 => Op::GrDown {
                        peer: pick_peer(rng),
                    },
                    1 => Op::GrUp {
                        peer: pick_peer(rng),
                    },
                    2 => Op::StalePurge {
                        peer: pick_peer(rng),
                    },
                    3 => Op::LlgrMark {
                        peer: pick_peer(rng),
                    },
                    _ => Op::LlgrPurge {
                        peer: pick_peer(rng),
                    },
                },
                2 => {
                    if rng.bool() {
                        Op::ExportPolicy { idx: rng.usize(4) }
                    } else {
                        Op::RouteRefresh
                    }
                }
                3 => Op::NhFlap {
                    nh: rng.usize(2),
                    reachable: rng.bool(),
                },
                4 => {
                    if rng.bool() {
                        Op::ImportPolicy {
                            idx: rng.usize(3),
                            peer: pick_peer(rng),
                        }
                    } else {
                        Op::PeerDown {
                            peer: pick_peer(rng),
                        }
                    }
                }
                _ => match rng.below(8) {
                    0 => Op::PeerDown {
                        peer: pick_peer(rng),
                    },
                    1 => Op::GrDown {
                        peer: pick_peer(rng),
                    },
                    2 => Op::GrUp {
                        peer: pick_peer(rng),
                    },
                    3 => Op::StalePurge {
                        peer: pick_peer(rng),
                    },
                    4 => Op::NhFlap {
                        nh: rng.usize(2),
                        reachable: rng.bool(),
                    },
                    5 => Op::ExportPolicy { idx: rng.usize(4) },
                    6 => Op::LlgrMark {
                        peer: pick_peer(rng),
                    },
                    _ => Op::Check,
                },
            }
        };
        ops.push(op);
    }
    ops.push(Op::Check);
    ops
}

// ------------------------------------------------------------------ observer

static TRACE: std::sync::atomic::AtomicBool = std::sync::atomic::AtomicBool::new(false);
fn trace() -> bool {
    TRACE.load(std::sync::atomic::Ordering::Relaxed)
}

struct Observer {
    session: PeerSession,
    server: TcpStream,
    client: TcpStream,
    peer_codec: bgp::PeerCodec,
    rxbuf: BytesMut,
    mirror: BTreeMap<Key, Val>,
    frames: u64,
    attr_errors: u64,
    withdraw_of_unknown: u64,
}

fn make_context() -> Arc<std::sync::Mutex<PeerContext>> {
    let fsm = crate::fsm::PeerFsm::new(
        u32::from(Ipv4Addr::new(1, 0, 0, 1)),
        LOCAL_ASN,
        vec![],
        90,
        0,
        FnvHashMap::default(),
    );
    let conn_arbiter = Arc::new(std::sync::Mutex::new(ConnArbiter::new(fsm)));
    Arc::new(std::sync::Mutex::new(PeerContext {
        conn_arbiter,
        active_connect_cancel_tx: None,
        active_connect_join_handle: None,
        gr_state: crate::gr::GrState::new(),
        gr_restart_timer: None,
        llgr_family_timers: FnvHashMap::default(),
        rtc_state: crate::rtc::RtcState::new(),
        rtc_eor_timer: None,
    }))
}

fn caps(cfg: &ObsCfg, addpath_mode: u8) -> Vec<packet::Capability> {
    let f = family(cfg);
    let mut v = vec![packet::Capability::MultiProtocol(f)];
    if cfg.as4 {
        v.push(packet::Capability::FourOctetAsNumber(LOCAL_ASN));
    }
    if cfg.addpath {
        v.push(packet::Capability::AddPath(vec![(f, addpath_mode)]));
    }
    v
}

#[derive(Debug)]
enum HarnessErr {
    Io(String),
    Watchdog(String),
    Decode(String),
}

impl Observer {
    async fn establish(
        cfg: &ObsCfg,
        tables: &TableHandle,
        listener: &TcpListener,
    ) -> Result<Observer, HarnessErr> {
        let addr = listener
            .local_addr()
            .map_err(|e| HarnessErr::Io(e.to_string()))?;
        let client = crate::verif_hooks::connect_retry(addr)
            .await
            .map_err(|e| HarnessErr::Io(e.to_string()))?;
        let (server, _) = listener
            .accept()
            .await
            .map_err(|e| HarnessErr::Io(e.to_string()))?;
        // thousands of short-lived connections per process: close with RST so no
        // socket lingers in TIME_WAIT and the ephemeral port range is not exhausted
        let _ = client.set_linger(Some(std::time::Duration::ZERO));
        let _ = server.set_linger(Some(std::time::Duration::ZERO));
        let local_caps = caps(cfg, 2); // we send
        let remote_caps = caps(cfg, 1); // the neighbour receives
        let mut s = PeerSession::new_for_test(obs_addr(), make_context(), tables.clone());
        s.export_ctx = PeerExportContext {
            role: cfg.role,
            local_asn: LOCAL_ASN,
            local_addr: if cfg.v6 {
                IpAddr::V6(Ipv6Addr::new(0x2001, 0xdb8, 0xffff, 0, 0, 0, 0, 0xfe))
            } else {
                IpAddr::V4(Ipv4Addr::new(192, 0, 2, 1))
            },
            link_addr: None,
            confederation_id: cfg.confed_id,
        };
        s.cluster_id = cfg.cluster_id;
        s.local_cap = local_caps.clone();
        s.codec = bgp::PeerCodec::negotiate(&local_caps, &remote_caps);
        if cfg.addpath && cfg.send_max > 0 {
            // what PeerFsm::process computes from the configured send-max
            s.effective_max.insert(family(cfg), cfg.send_max);
        }
        s.state
            .remote_cap
            .store(Some(Arc::new(remote_caps.clone())));
        s.state
            .remote_asn
            .store(peer_asn(cfg.role, 0), Ordering::Relaxed);
        s.state
            .remote_id
            .store(u32::from(Ipv4Addr::new(9, 9, 9, 9)), Ordering::Relaxed);
        let local_sa: SocketAddr = server
            .local_addr()
            .map_err(|e| HarnessErr::Io(e.to_string()))?;
        let remote_sa: SocketAddr = server
            .peer_addr()
            .map_err(|e| HarnessErr::Io(e.to_string()))?;
        s.on_established(local_sa, remote_sa).await;
        Ok(Observer {
            session: s,
            server,
            client,
            peer_codec: bgp::PeerCodec::negotiate(&remote_caps, &local_caps),
            rxbuf: BytesMut::with_capacity(1 << 16),
            mirror: BTreeMap::new(),
            frames: 0,
            attr_errors: 0,
            withdraw_of_unknown: 0,
        })
    }

    /// exactly the dispatch of run_select's peer-event arm
    async fn deliver(&mut self, k: usize) -> usize {
        let mut n = 0;
        for _ in 0..k {
            let ev = match self.session.peer_event_rx.as_mut() {
                Some(rx) => rx.as_mut().try_recv().ok(),
                None => None,
            };
            let Some(ev) = ev else { break };
            n += 1;
            if trace() {
                match &ev {
                    ToPeerEvent::NlriChange(u) => eprintln!(
                        "    deliver: NlriChange {} dest_id={} best_changed={} any_changed={} replaced={:?} paths={:?}",
                        u.net,
                        u.dest_id,
                        u.best_changed,
                        u.any_changed,
                        u.replaced_path_id,
                        u.current_paths
                            .iter()
                            .map(|p| (p.source.remote_addr, p.local_path_id))
                            .collect::<Vec<_>>()
                    ),
                    ToPeerEvent::SoftResetOut => eprintln!("    deliver: SoftResetOut"),
                    ToPeerEvent::RouteRefreshFamilies(_) => {
                        eprintln!("    deliver: RouteRefreshFamilies")
                    }
                }
            }
            match ev {
                ToPeerEvent::NlriChange(update) => {
                    self.session.handle_prefix_update(update);
                }
                ToPeerEvent::SoftResetOut => {
                    for family in self.session.pending.keys().cloned().collect::<Vec<_>>() {
                        self.session.do_route_refresh(family).await;
                    }
                }
                ToPeerEvent::RouteRefreshFamilies(families) => {
                    for family in families {
                        self.session.do_route_refresh(family).await;
                    }
                }
            }
        }
        n
    }

    /// flush_tx, then a KEEPALIVE sentinel through the same socket so the client
    /// side knows when it has read everything (TCP keeps the order).
    async fn flush(&mut self) -> Result<(), HarnessErr> {
        if !self.session.flush_tx(&mut self.server).await {
            return Err(HarnessErr::Io("flush_tx reported a write error".into()));
        }
        self.session.ctrl_msgs.push(bgp::Message::Keepalive);
        if !self.session.flush_tx(&mut self.server).await {
            return Err(HarnessErr::Io(
                "flush_tx (sentinel) reported a write error".into(),
            ));
        }
        let deadline = std::time::Instant::now() + std::time::Duration::from_secs(20);
        loop {
            // parse what is buffered
            loop {
                match self.peer_codec.try_parse(&mut self.rxbuf) {
                    Ok(Some(parsed)) => {
                        self.frames += 1;
                        if let bgp::ParsedMessage::Keepalive = parsed {
                            return Ok(());
                        }
                        self.fold(parsed)?;
                    }
                    Ok(None) => break,
                    Err(n) => {
                        return Err(HarnessErr::Decode(format!(
                            "peer-side codec rejected a frame: {:?}",
                            n
                        )));
                    }
                }
            }
            if std::time::Instant::now() > deadline {
                return Err(HarnessErr::Watchdog(
                    "sentinel KEEPALIVE not read within 20 s".into(),
                ));
            }
            match tokio::time::timeout(std::time::Duration::from_secs(20), self.client.readable())
                .await
            {
                Ok(Ok(())) => {}
                Ok(Err(e)) => return Err(HarnessErr::Io(e.to_string())),
                Err(_) => {
                    return Err(HarnessErr::Watchdog(
                        "client socket not readable within 20 s".into(),
                    ));
                }
            }
            match self.client.try_read_buf(&mut self.rxbuf) {
                Ok(0) => return Err(HarnessErr::Io("EOF on the client end".into())),
                Ok(_) => {}
                Err(ref e) if e.kind() == std::io::ErrorKind::WouldBlock => {}
                Err(e) => return Err(HarnessErr::Io(e.to_string())),
            }
        }
    }

    fn fold(&mut self, parsed: bgp::ParsedMessage) -> Result<(), HarnessErr> {
        if let bgp::ParsedMessage::Update(bgp::ParsedUpdate::Routes { error_attrs, .. }) = &parsed {
            if !error_attrs.is_empty() {
                self.attr_errors += 1;
            }
        }
        let msgs = bgp::validate_message(parsed, false).map_err(|n| {
            HarnessErr::Decode(format!("validate_message rejected a frame: {:?}", n))
        })?;
        for m in msgs {
            match m {
                bgp::Message::Update(bgp::Update::Reach {
                    family,
                    entries,
                    nexthop,
                    attr,
                }) => {
                    if trace() {
                        eprintln!(
                            "    wire: REACH {:?} nh={:?}",
                            entries
                                .iter()
                                .map(|e| format!("{} pid{}", e.nlri, e.path_id))
                                .collect::<Vec<_>>(),
                            nexthop
                        );
                    }
                    let v = (
                        render_attrs(&attr),
                        nexthop
                            .map(|n| format!("{}", n))
                            .unwrap_or_else(|| "-".into()),
                    );
                    for e in entries {
                        self.mirror.insert(
                            (fam_id(family), format!("{}", e.nlri), e.path_id),
                            v.clone(),
                        );
                    }
                }
                bgp::Message::Update(bgp::Update::Unreach { family, entries }) => {
                    if trace() {
                        eprintln!(
                            "    wire: UNREACH {:?}",
                            entries
                                .iter()
                                .map(|e| format!("{} pid{}", e.nlri, e.path_id))
                                .collect::<Vec<_>>()
                        );
                    }
                    for e in entries {
                        if self
                            .mirror
                            .remove(&(fam_id(family), format!("{}", e.nlri), e.path_id))
                            .is_none()
                        {
                            self.withdraw_of_unknown += 1;
                        }
                    }
                }
                _ => {}
            }
        }
        Ok(())
    }

    async fn quiesce(&mut self) -> Result<usize, HarnessErr> {
        let mut delivered = 0;
        loop {
            let n = self.deliver(64).await;
            delivered += n;
            if n == 0 {
                break;
            }
        }
        self.flush().await?;
        Ok(delivered)
    }
}

// ------------------------------------------------------------------ world (source peers)

#[derive(Clone, Copy, PartialEq, Debug)]
pub(super) enum PeerSt {
    Up,
    GrDown,
    GrUpAwaitingEor,
    Llgr,
    LlgrUpAwaitingEor,
}

pub(super) struct PeerSlot {
    pub(super) src: Arc<table::Source>,
    pub(super) st: PeerSt,
}

pub(super) struct World {
    pub(super) tables: TableHandle,
    pub(super) cfg: ObsCfg,
    /// one slot per source peer; the slot's lock is held across the table call so
    /// that one peer's operations keep their order (one session = one task)
    pub(super) peers: Vec<std::sync::Mutex<PeerSlot>>,
    pub(super) attrs: Vec<Arc<Vec<packet::Attribute>>>,
    pub(super) exp: Vec<Option<Arc<table::PolicyAssignment>>>,
    pub(super) imp: Vec<Option<Arc<table::PolicyAssignment>>>,
    pub(super) ts: std::sync::atomic::AtomicU32,
}

impl World {
    pub(super) fn new_source(cfg: &ObsCfg, i: usize) -> Arc<table::Source> {
        let role = peer_role(i, cfg);
        Arc::new(table::Source::new(
            peer_addr(i),
            IpAddr::V4(Ipv4Addr::new(192, 0, 2, 1)),
            peer_asn(role, i),
            LOCAL_ASN,
            Ipv4Addr::new(9, 9, 9, 9 + i as u8),
            role,
        ))
    }

    pub(super) fn new(cfg: &ObsCfg) -> World {
        let tables: TableHandle = Arc::new(TableManager::new(cfg.shards));
        World {
            tables,
            cfg: cfg.clone(),
            peers: (0..N_PEERS)
                .map(|i| {
                    std::sync::Mutex::new(PeerSlot {
                        src: World::new_source(cfg, i),
                        st: PeerSt::Up,
                    })
                })
                .collect(),
            attrs: attr_pool(1000),
            exp: export_policies(cfg),
            imp: import_policies(cfg),
            ts: std::sync::atomic::AtomicU32::new(1),
        }
    }

    /// Apply a RIB-side operation the way the daemon's session / timer code would.
    /// Returns false when the op is not applicable in the current state (then it is a no-op).
    pub(super) fn apply(&self, op: &Op) -> bool {
        let f = family(&self.cfg);
        let ts = self.ts.fetch_add(1, Ordering::Relaxed) + 1;
        match *op {
            Op::Announce {
                peer,
                pfx,
                pid,
                attr,
                nh,
            } => {
                let slot = self.peers[peer].lock().unwrap();
                if matches!(slot.st, PeerSt::GrDown | PeerSt::Llgr) {
                    return false; // no live session
                }
                self.tables.insert_route(
                    slot.src.clone(),
                    f,
                    packet::PathNlri {
                        path_id: pid,
                        nlri: prefix(&self.cfg, pfx),
                    },
                    Some(nexthop(&self.cfg, nh)),
                    self.attrs[attr].clone(),
                    None,
                    ts,
                );
                true
            }
            Op::Withdraw { peer, pfx, pid } => {
                let slot = self.peers[peer].lock().unwrap();
                if matches!(slot.st, PeerSt::GrDown | PeerSt::Llgr) {
                    return false;
                }
                self.tables.remove_route(
                    slot.src.clone(),
                    f,
                    packet::PathNlri {
                        path_id: pid,
                        nlri: prefix(&self.cfg, pfx),
                    },
                    None,
                    ts,
                );
                true
            }
            Op::PeerDown { peer } => {
                if peer == 0 {
                    return false; // the observer's own session stays up
                }
                // non-GR drop (session_loop: every family dropped), then a new session later
                let mut slot = self.peers[peer].lock().unwrap();
                self.tables.unregister_peer(peer_addr(peer), &[f], &[]);
                slot.src = World::new_source(&self.cfg, peer);
                slot.st = PeerSt::Up;
                true
            }
            Op::GrDown { peer } => {
                let mut slot = self.peers[peer].lock().unwrap();
                if peer == 0 || !matches!(slot.st, PeerSt::Up | PeerSt::GrUpAwaitingEor) {
                    return false;
                }
                // GR-eligible drop: negotiated family kept and marked stale
                self.tables.unregister_peer(peer_addr(peer), &[], &[f]);
                slot.st = PeerSt::GrDown;
                true
            }
            Op::GrUp { peer } => {
                let mut slot = self.peers[peer].lock().unwrap();
                match slot.st {
                    PeerSt::GrDown => {
                        slot.src = World::new_source(&self.cfg, peer);
                        slot.st = PeerSt::GrUpAwaitingEor;
                        true
                    }
                    PeerSt::Llgr => {
                        slot.src = World::new_source(&self.cfg, peer);
                        slot.st = PeerSt::LlgrUpAwaitingEor;
                        true
                    }
                    _ => false,
                }
            }
            Op::StalePurge { peer } => {
                let mut slot = self.peers[peer].lock().unwrap();
                match slot.st {
                    // EOR on the new session, or restart-timer expiry while down
                    PeerSt::GrUpAwaitingEor => {
                        self.tables.drop_stale_families(peer_addr(peer), &[f]);
                        slot.st = PeerSt::Up;
                        true
                    }
                    PeerSt::GrDown => {
                        self.tables.drop_stale_families(peer_addr(peer), &[f]);
                        slot.src = World::new_source(&self.cfg, peer);
                        slot.st = PeerSt::Up;
                        true
                    }
                    PeerSt::LlgrUpAwaitingEor => {
                        // EOR after reconnecting from the LLGR period
                        self.tables.drop_llgr_stale_families(peer_addr(peer), &[f]);
                        self.tables.drop_stale_families(peer_addr(peer), &[f]);
                        slot.st = PeerSt::Up;
                        true
                    }
                    _ => false,
                }
            }
            Op::LlgrMark { peer } => {
                let mut slot = self.peers[peer].lock().unwrap();
                if slot.st != PeerSt::GrDown {
                    return false;
                }
                // restart timer expired with LLGR negotiated
                self.tables.mark_llgr_stale(peer_addr(peer), &[f]);
                slot.st = PeerSt::Llgr;
                true
            }
            Op::LlgrPurge { peer } => {
                let mut slot = self.peers[peer].lock().unwrap();
                if slot.st != PeerSt::Llgr {
                    return false;
                }
                self.tables.drop_llgr_stale_families(peer_addr(peer), &[f]);
                slot.src = World::new_source(&self.cfg, peer);
                slot.st = PeerSt::Up;
                true
            }
            Op::NhFlap { nh, reachable } => {
                self.tables
                    .update_nexthop_validity(nexthop(&self.cfg, nh).addr(), reachable);
                true
            }
            Op::ExportPolicy { idx } => {
                self.tables
                    .export_policy
                    .store(self.exp[idx % self.exp.len()].clone());
                self.tables.soft_reset_out(obs_addr());
                true
            }
            Op::ImportPolicy { idx, peer } => {
                self.tables
                    .import_policy
                    .store(self.imp[idx % self.imp.len()].clone());
                self.tables.soft_reset_in(peer_addr(peer));
                true
            }
            _ => false,
        }
    }
}

// ------------------------------------------------------------------ one history

struct Failure {
    kind: &'static str,
    detail: Vec<String>,
    epoch_ops: usize,
}

struct Outcome {
    failure: Option<Failure>,
    harness_err: Option<String>,
    checks: u64,
    frames: u64,
    delivered: u64,
    applied: BTreeMap<&'static str, u64>,
    attr_errors: u64,
    routes_compared: u64,
    id_reuse_pending: bool,
    bursts: u64,
    sched_hits: u64,
    late_joins: u64,
    late_joins_overlapped: u64,
}

pub(super) fn diff(
    old: &BTreeMap<Key, Val>,
    new: &BTreeMap<Key, Val>,
) -> Option<(&'static str, Vec<String>)> {
    let mut stale = Vec::new();
    let mut missing = Vec::new();
    let mut attrs = Vec::new();
    for (k, v) in old {
        match new.get(k) {
            None => stale.push(format!(
                "{} pid{} still in the neighbour's view, not in a fresh dump",
                k.1, k.2
            )),
            Some(n) if n != v => attrs.push(format!(
                "{} pid{}: view has {:?}, fresh dump has {:?}",
                k.1, k.2, v, n
            )),
            _ => {}
        }
    }
    for k in new.keys() {
        if !old.contains_key(k) {
            missing.push(format!(
                "{} pid{} in a fresh dump, missing from the neighbour's view",
                k.1, k.2
            ));
        }
    }
    if !stale.is_empty() {
        stale.extend(missing);
        stale.extend(attrs);
        Some(("stale-route", stale))
    } else if !missing.is_empty() {
        missing.extend(attrs);
        Some(("missing-route", missing))
    } else if !attrs.is_empty() {
        Some(("stale-attrs", attrs))
    } else {
        None
    }
}

async fn run_history(cfg: &ObsCfg, ops: &[Op], listener: &TcpListener) -> Outcome {
    if cfg.concurrent {
        crate::verif_hooks::install(fnv64(format!("{:?}", ops).as_bytes()), 60);
    }
    let mut out = run_history_inner(cfg, ops, listener).await;
    if cfg.concurrent {
        let (hits, _) = crate::verif_hooks::uninstall();
        out.sched_hits = hits;
    }
    out
}

async fn run_history_inner(cfg: &ObsCfg, ops: &[Op], listener: &TcpListener) -> Outcome {
    let mut out = Outcome {
        failure: None,
        harness_err: None,
        checks: 0,
        frames: 0,
        delivered: 0,
        applied: BTreeMap::new(),
        attr_errors: 0,
        routes_compared: 0,
        id_reuse_pending: false,
        bursts: 0,
        sched_hits: 0,
        late_joins: 0,
        late_joins_overlapped: 0,
    };
    let world = Arc::new(World::new(cfg));
    let is_rib_op = |o: &Op| {
        !matches!(
            o,
            Op::Deliver { .. } | Op::Flush | Op::Check | Op::RouteRefresh
        )
    };
    let mut skip_until = 0usize;
    let mut join_threads = Vec::new();
    if cfg.concurrent && cfg.late_join {
        // the RIB-side operations among the first 30: the first half populates the RIB,
        // the second half is issued from source threads while the session comes up
        let head: Vec<Op> = ops
            .iter()
            .take(30)
            .filter(|o| is_rib_op(o))
            .cloned()
            .collect();
        skip_until = ops.len().min(30);
        let (pre, during) = head.split_at(head.len() / 2);
        for o in pre {
            if world.apply(o) {
                *out.applied.entry(o.kind()).or_insert(0) += 1;
            }
        }
        // An export-policy change (+ soft reset out) is a configuration step addressed to
        // the neighbour's session, not a RIB event: issued while that session is still
        // coming up it has no session to reset, and which policy the initial dump uses is
        // not something the statement fixes.  Such steps are applied before the session
        // comes up; only RIB-side operations race with it.
        let (cfg_steps, during): (Vec<Op>, Vec<Op>) = during
            .iter()
            .cloned()
            .partition(|o| matches!(o, Op::ExportPolicy { .. }));
        for o in &cfg_steps {
            if world.apply(o) {
                *out.applied.entry(o.kind()).or_insert(0) += 1;
            }
        }
        let during = &during[..];
        let mut groups: Vec<Vec<Op>> = vec![Vec::new(), Vec::new(), Vec::new()];
        for o in during {
            let g = match o {
                Op::Announce { peer, .. }
                | Op::Withdraw { peer, .. }
                | Op::PeerDown { peer }
                | Op::GrDown { peer }
                | Op::GrUp { peer }
                | Op::StalePurge { peer }
                | Op::LlgrMark { peer }
                | Op::LlgrPurge { peer } => peer % 3,
                _ => 0,
            };
            groups[g].push(o.clone());
        }
        for (g, gops) in groups.into_iter().enumerate() {
            if gops.is_empty() {
                continue;
            }
            let w = world.clone();
            join_threads.push(std::thread::spawn(move || {
                crate::verif_hooks::set_thread_id(1 + g as u32);
                let mut applied: Vec<&'static str> = Vec::new();
                for o in &gops {
                    if w.apply(o) {
                        applied.push(o.kind());
                    }
                }
                applied
            }));
        }
        out.late_joins += 1;
    }
    let mut obs = match Observer::establish(cfg, &world.tables, listener).await {
        Ok(o) => o,
        Err(e) => {
            out.harness_err = Some(format!("{:?}", e));
            return out;
        }
    };
    if join_threads.iter().any(|h| !h.is_finished()) {
        out.late_joins_overlapped += 1;
    }
    for h in join_threads {
        match h.join() {
            Ok(applied) => {
                for k in applied {
                    *out.applied.entry(k).or_insert(0) += 1;
                }
            }
            Err(_) => out.harness_err = Some("source thread panicked".into()),
        }
    }
    if out.harness_err.is_some() {
        return out;
    }
    if let Err(e) = obs.quiesce().await {
        out.harness_err = Some(format!("{:?}", e));
        return out;
    }
    let mut epoch_start = 0usize;
    let mut withdrawn_unflushed = false;
    for (i, op) in ops.iter().enumerate() {
        if i < skip_until {
            continue;
        }
        if trace() {
            eprintln!("  op {:?}", op);
        }
        if cfg.concurrent && is_rib_op(op) {
            // a burst: the maximal run of RIB-side operations, issued from up to three
            // threads (one per group of source peers; a peer's own order is preserved)
            // while this thread keeps delivering change events and flushing
            let mut j = i;
            while j < ops.len() && is_rib_op(&ops[j]) && j - i < 12 {
                j += 1;
            }
            skip_until = j;
            let mut groups: Vec<Vec<Op>> = vec![Vec::new(), Vec::new(), Vec::new()];
            for o in &ops[i..j] {
                let g = match o {
                    Op::Announce { peer, .. }
                    | Op::Withdraw { peer, .. }
                    | Op::PeerDown { peer }
                    | Op::GrDown { peer }
                    | Op::GrUp { peer }
                    | Op::StalePurge { peer }
                    | Op::LlgrMark { peer }
                    | Op::LlgrPurge { peer } => peer % 3,
                    _ => 0,
                };
                groups[g].push(o.clone());
            }
            let mut handles = Vec::new();
            for (g, gops) in groups.into_iter().enumerate() {
                if gops.is_empty() {
                    continue;
                }
                let w = world.clone();
                handles.push(std::thread::spawn(move || {
                    crate::verif_hooks::set_thread_id(1 + g as u32);
                    let mut applied: Vec<&'static str> = Vec::new();
                    for o in &gops {
                        if w.apply(o) {
                            applied.push(o.kind());
                        }
                    }
                    applied
                }));
            }
            let mut spin = 0u64;
            while handles.iter().any(|h| !h.is_finished()) {
                spin += 1;
                out.delivered += obs.deliver(1 + (spin % 3) as usize).await as u64;
                if spin % 5 == 0 {
                    if let Err(e) = obs.flush().await {
                        out.harness_err = Some(format!("{:?}", e));
                        break;
                    }
                }
                std::thread::yield_now();
            }
            for h in handles {
                match h.join() {
                    Ok(applied) => {
                        for k in applied {
                            *out.applied.entry(k).or_insert(0) += 1;
                        }
                    }
                    Err(_) => out.harness_err = Some("source thread panicked".into()),
                }
            }
            out.bursts += 1;
            if out.harness_err.is_some() {
                break;
            }
            continue;
        }
        let r: Result<(), HarnessErr> = match op {
            Op::Deliver { k } => {
                out.delivered += obs.deliver(*k).await as u64;
                Ok(())
            }
            Op::Flush => {
                withdrawn_unflushed = false;
                obs.flush().await
            }
            Op::RouteRefresh => {
                // what apply_outputs does for Output::RouteRefresh(family)
                obs.session.do_route_refresh(family(cfg)).await;
                *out.applied.entry(op.kind()).or_insert(0) += 1;
                Ok(())
            }
            Op::Check => {
                match obs.quiesce().await {
                    Err(e) => Err(e),
                    Ok(d) => {
                        out.delivered += d as u64;
                        // a brand-new session with the same parameters, from the current RIB
                        match Observer::establish(cfg, &world.tables, listener).await {
                            Err(e) => Err(e),
                            Ok(mut fresh) => match fresh.quiesce().await {
                                Err(e) => Err(e),
                                Ok(_) => {
                                    out.checks += 1;
                                    out.routes_compared += fresh.mirror.len() as u64;
                                    out.frames += obs.frames;
                                    out.attr_errors += obs.attr_errors + fresh.attr_errors;
                                    if let Some((kind, detail)) = diff(&obs.mirror, &fresh.mirror) {
                                        out.failure = Some(Failure {
                                            kind,
                                            detail,
                                            epoch_ops: i - epoch_start,
                                        });
                                        return out;
                                    }
                                    // the fresh session is the observer of the next epoch
                                    obs = fresh;
                                    epoch_start = i + 1;
                                    Ok(())
                                }
                            },
                        }
                    }
                }
            }
            other => {
                if world.apply(other) {
                    *out.applied.entry(other.kind()).or_insert(0) += 1;
                    match other {
                        Op::Withdraw { .. } => withdrawn_unflushed = true,
                        Op::Announce { .. } if withdrawn_unflushed => out.id_reuse_pending = true,
                        _ => {}
                    }
                }
                Ok(())
            }
        };
        if let Err(e) = r {
            out.harness_err = Some(format!("{:?}", e));
            return out;
        }
    }
    out
}

fn trigger_of(ops: &[Op]) -> &'static str {
    let has = |k: &str| ops.iter().any(|o| o.kind() == k);
    if has("llgr-mark") || has("llgr-purge") {
        "llgr"
    } else if has("export-policy+soft-reset-out") {
        "export-policy-change"
    } else if has("route-refresh") {
        "route-refresh"
    } else if has("gr-down") || has("stale-purge") {
        "gr-stale"
    } else if has("nexthop-flap") {
        "nexthop-flap"
    } else if has("import-policy+soft-reset-in") {
        "soft-reset-in"
    } else if has("peer-down") {
        "peer-down"
    } else {
        "announce-withdraw"
    }
}

pub(super) fn ops_json(ops: &[Op]) -> Json {
    Json::strs(ops.iter().map(|o| format!("{:?}", o)))
}

pub(super) fn gen_cfg(rng: &mut Rng) -> ObsCfg {
    let role = *rng.pick(&[
        PeerRole::Ebgp,
        PeerRole::Ibgp,
        PeerRole::IbgpRrClient,
        PeerRole::RsClient,
        PeerRole::ConfedEbgp,
    ]);
    let addpath = rng.chance(1, 2);
    ObsCfg {
        v6: rng.chance(1, 4),
        role,
        cluster_id: match role {
            PeerRole::Ibgp | PeerRole::IbgpRrClient => {
                if rng.chance(2, 3) {
                    Some(Ipv4Addr::new(1, 0, 0, 1))
                } else {
                    None
                }
            }
            _ => None,
        },
        confed_id: if role == PeerRole::ConfedEbgp || rng.chance(1, 8) {
            64512
        } else {
            0
        },
        addpath,
        send_max: if addpath { rng.range(1, 3) as usize } else { 0 },
        as4: rng.chance(3, 4),
        shards: *rng.pick(&[1usize, 2, 4]),
        obs_is_source: rng.chance(1, 2),
        concurrent: rng.chance(1, 4),
        late_join: false,
    }
}

/// True if, after some refresh-type operation of `ops`, the prefix called `name` is removed
/// entirely (its withdrawal, or the drop / stale purge / LLGR purge of a peer that had
/// announced it) and announced again later.  Used only to recognise the one open finding.
pub(super) fn recreated_after_refresh(cfg: &ObsCfg, ops: &[Op], name: &str) -> bool {
    let is = |pfx: usize| format!("{}", prefix(cfg, pfx)) == name;
    for (r, o) in ops.iter().enumerate() {
        if !matches!(o, Op::ExportPolicy { .. } | Op::RouteRefresh) {
            continue;
        }
        let announcers: Vec<usize> = ops
            .iter()
            .filter_map(|o| match o {
                Op::Announce { peer, pfx, .. } if is(*pfx) => Some(*peer),
                _ => None,
            })
            .collect();
        let mut removed_at = None;
        for (i, o) in ops.iter().enumerate().skip(r + 1) {
            let removes = match o {
                Op::Withdraw { pfx, .. } => is(*pfx),
                Op::PeerDown { peer } | Op::StalePurge { peer } | Op::LlgrPurge { peer } => {
                    announcers.contains(peer)
                }
                _ => false,
            };
            if removes {
                removed_at = Some(i);
                break;
            }
        }
        if let Some(i) = removed_at {
            if ops
                .iter()
                .skip(i + 1)
                .any(|o| matches!(o, Op::Announce { pfx, .. } if is(*pfx)))
            {
                return true;
            }
        }
    }
    false
}

/// The same history with every refresh running on an empty event queue: everything queued is
/// delivered right before a wire ROUTE-REFRESH and right after an export-policy change
/// (whose SoftResetOut event is then processed before any later RIB operation happens).
fn without_read_ahead(ops: &[Op]) -> Vec<Op> {
    let mut out = Vec::with_capacity(ops.len() * 2);
    for o in ops {
        match o {
            Op::RouteRefresh => {
                out.push(Op::Deliver { k: 100_000 });
                out.push(o.clone());
            }
            Op::ExportPolicy { .. } => {
                out.push(Op::Deliver { k: 100_000 });
                out.push(o.clone());
                out.push(Op::Deliver { k: 100_000 });
            }
            _ => out.push(o.clone()),
        }
    }
    out
}

#[test]
fn run() {
    let params = Params::from_args_env();
    let mut rep = Report::new("C01", &params);
    let rt = tokio::runtime::Builder::new_current_thread()
        .enable_all()
        .build()
        .expect("runtime");
    let mut rng = Rng::new(params.seed ^ 0xC01);
    let listener = match rt.block_on(crate::verif_hooks::bind_retry(
        "127.0.0.1:0".parse().unwrap(),
    )) {
        Ok(l) => l,
        Err(e) => {
            rep.inconclusive(&format!("cannot bind a loopback listener: {}", e));
            let _ = rep.finish();
            return;
        }
    };
    let n = params.n(300, 6000);
    let only = params.get("only").and_then(|s| s.parse::<u64>().ok());
    for hist_idx in 0..n {
        if !rep.in_budget() {
            break;
        }
        let mut cfg = gen_cfg(&mut rng);
        let len = rng.range(4, if params.thorough() { 120 } else { 60 }) as usize;
        let ops = gen_ops(&mut rng, &cfg, len);
        // half of the concurrent histories let the neighbour's session come up in the
        // middle of a burst (decided from the history itself: the generator stream of the
        // other histories is unchanged)
        cfg.late_join = cfg.concurrent && fnv64(format!("{:?}", ops).as_bytes()) % 2 == 0;
        // One history in six gets a directed block somewhere in the middle that makes a
        // destination id change hands for certain (the RIB is emptied, P is announced and
        // sent, P is withdrawn and a different prefix Q announced before the next flush: Q
        // is given P's id while P's withdrawal is still pending at the neighbour).  Decided
        // from the history itself, so the generator stream of the others is unchanged.
        let mut ops = ops;
        let h = fnv64(format!("recycle{:?}", ops).as_bytes());
        if !cfg.concurrent && h % 6 == 0 {
            let first_peer = if cfg.obs_is_source { 0 } else { 1 };
            let a = first_peer + ((h >> 8) as usize) % (N_PEERS - first_peer);
            let b = first_peer + ((h >> 16) as usize) % (N_PEERS - first_peer);
            let p = ((h >> 24) as usize) % N_PFX;
            let q = (p + 1 + ((h >> 32) as usize) % (N_PFX - 1)) % N_PFX;
            let mut block: Vec<Op> = (first_peer..N_PEERS)
                .map(|peer| Op::PeerDown { peer })
                .collect();
            block.extend([
                Op::Deliver { k: 100_000 },
                Op::Flush,
                Op::Announce {
                    peer: a,
                    pfx: p,
                    pid: 0,
                    attr: 0,
                    nh: 0,
                },
                Op::Deliver { k: 100_000 },
                Op::Flush,
                Op::Withdraw {
                    peer: a,
                    pfx: p,
                    pid: 0,
                },
                Op::Announce {
                    peer: b,
                    pfx: q,
                    pid: 0,
                    attr: 1,
                    nh: 0,
                },
                Op::Deliver { k: 100_000 },
                Op::Flush,
                Op::Check,
            ]);
            let at = ((h >> 40) as usize) % (ops.len().max(1));
            let tail = ops.split_off(at);
            ops.extend(block);
            ops.extend(tail);
            rep.count("histories-with-directed-id-handover");
        }
        if let Some(o) = only {
            if o != hist_idx {
                continue;
            }
        }
        let out = rt.block_on(run_history(&cfg, &ops, &listener));
        rep.eval();
        rep.count("histories");
        rep.count_n("checks", out.checks);
        rep.count_n("frames-decoded", out.frames);
        rep.count_n("events-delivered", out.delivered);
        rep.count_n("routes-compared", out.routes_compared);
        rep.count_n("frames-with-attribute-errors", out.attr_errors);
        for (k, v) in &out.applied {
            rep.count_n(&format!("op:{}", k), *v);
        }
        rep.count(&format!("role:{:?}", cfg.role));
        rep.count(if cfg.addpath {
            "branch:addpath"
        } else {
            "branch:plain"
        });
        rep.count(&format!("send-max:{}", cfg.send_max));
        rep.count(&format!("shards:{}", cfg.shards));
        if cfg.concurrent {
            rep.count("histories-concurrent");
            rep.count_n("concurrent-bursts", out.bursts);
            rep.count_n("sched-point-hits", out.sched_hits);
            rep.count_n("late-joins", out.late_joins);
            rep.count_n("late-joins-overlapping-a-burst", out.late_joins_overlapped);
        }
        if let Some(e) = &out.harness_err {
            rep.inconclusive(&format!("harness error: {}", e));
            continue;
        }
        if out.id_reuse_pending {
            rep.count("histories-with-announce-while-withdraw-pending");
            rep.nontrivial(fnv64(format!("{:?}{:?}", cfg, ops).as_bytes()));
        }
        if let Some(f) = out.failure {
            // a failure of a concurrent history is first re-run sequentially: if it is
            // schedule-independent it is shrunk and reported like any other
            let mut cfg = cfg.clone();
            if cfg.concurrent {
                let mut seq = cfg.clone();
                seq.concurrent = false;
                let o = rt.block_on(run_history(&seq, &ops, &listener));
                if o.harness_err.is_none() && o.failure.as_ref().is_some_and(|g| g.kind == f.kind) {
                    cfg = seq;
                } else {
                    let branch = if cfg.addpath && cfg.send_max > 1 {
                        "addpath"
                    } else {
                        "plain"
                    };
                    rep.violation(
                        &format!("C01/{}/{}/concurrent-only{}", f.kind, branch, if cfg.late_join { "/session-up-during-burst" } else { "" }),
                        &format!("after quiescence the neighbour's Adj-RIB-In differs from what a brand-new session is sent ({}); only with RIB operations issued concurrently from several threads", f.kind),
                        Json::obj(vec![
                            ("config", Json::s(format!("{:?}", cfg))),
                            ("ops", ops_json(&ops)),
                            ("differences", Json::strs(f.detail.clone())),
                            ("shard_seed", Json::Int(params.seed as i128)),
                            ("history_index", Json::Int(hist_idx as i128)),
                            ("note", Json::s("schedule-dependent: replay is best-effort")),
                        ]),
                    );
                    continue;
                }
            }
            // shrink: drop ops (never the final Check) while the same kind of failure remains
            let mut cur: Vec<Op> = ops.clone();
            // cut everything after the failing check
            let mut budget = 1500;
            loop {
                let before = cur.len();
                let mut i = 0;
                while i + 1 < cur.len() && budget > 0 {
                    let mut cand = cur.clone();
                    cand.remove(i);
                    budget -= 1;
                    let o = rt.block_on(run_history(&cfg, &cand, &listener));
                    if o.harness_err.is_none()
                        && o.failure.as_ref().is_some_and(|g| g.kind == f.kind)
                    {
                        cur = cand;
                    } else {
                        i += 1;
                    }
                }
                if cur.len() == before || budget == 0 {
                    break;
                }
            }
            if params.flag("trace") {
                TRACE.store(true, std::sync::atomic::Ordering::Relaxed);
                eprintln!("== minimal failing history, config {:?}", cfg);
            }
            let fin = rt.block_on(run_history(&cfg, &cur, &listener));
            TRACE.store(false, std::sync::atomic::Ordering::Relaxed);
            let detail = fin
                .failure
                .as_ref()
                .map(|g| g.detail.clone())
                .unwrap_or(f.detail.clone());
            let branch = if cfg.addpath && cfg.send_max > 1 {
                "addpath"
            } else {
                "plain"
            };
            let mut trigger = trigger_of(&cur).to_string();
            // One precise pattern gets its own signature: an Add-Path neighbour misses a
            // prefix that was removed and re-created (same path id) while a route refresh /
            // soft reset out ran ahead of the queued removal + creation events.
            if f.kind == "missing-route"
                && branch == "addpath"
                && (trigger == "export-policy-change" || trigger == "route-refresh")
            {
                let missing: Vec<String> = detail
                    .iter()
                    .filter(|d| d.contains("missing from the neighbour's view"))
                    .filter_map(|d| d.split(' ').next().map(|x| x.to_string()))
                    .collect();
                // (1) structure: after a refresh-type operation was issued, N was removed
                //     entirely and announced again (that is what makes the refresh walk read
                //     the new incarnation while the events of the old one are still queued)
                let recreated = missing
                    .iter()
                    .any(|m| recreated_after_refresh(&cfg, &cur, m));
                // (2) control experiment: the same history with every refresh running on an
                //     empty event queue (no read-ahead possible) must NOT fail; a defect that
                //     does not need the read-ahead keeps its generic signature
                let recreated = recreated && {
                    let ctl = without_read_ahead(&cur);
                    let o = rt.block_on(run_history(&cfg, &ctl, &listener));
                    o.harness_err.is_none() && o.failure.is_none()
                };
                if recreated && !missing.is_empty() {
                    trigger = "refresh-read-ahead-of-recreated-prefix".to_string();
                }
            }
            let sig = format!("C01/{}/{}/{}", f.kind, branch, trigger);
            rep.violation(
                &sig,
                &format!(
                    "after quiescence the neighbour's Adj-RIB-In differs from what a brand-new session is sent ({}; trigger: {})",
                    f.kind, trigger
                ),
                Json::obj(vec![
                    ("config", Json::s(format!("{:?}", cfg))),
                    ("minimal_ops", ops_json(&cur)),
                    ("differences", Json::strs(detail)),
                    ("original_len", Json::Int(ops.len() as i128)),
                    ("shard_seed", Json::Int(params.seed as i128)),
                    ("history_index", Json::Int(hist_idx as i128)),
                    ("replay", Json::s(format!("VERIF_SEED={} VERIF_TIER={} VERIF_ONLY={} VERIF_TRACE=1 <e2 test binary> event::verif::c01::run --exact --nocapture", params.seed, params.tier, hist_idx))),
                    ("epoch_ops", Json::Int(f.epoch_ops as i128)),
                ]),
            );
        } else if rep.want_sample() && out.checks > 0 && out.routes_compared > 0 {
            rep.sample(Json::obj(vec![
                ("config", Json::s(format!("{:?}", cfg))),
                ("ops", ops_json(&ops[..ops.len().min(25)])),
                ("checks", Json::Int(out.checks as i128)),
                ("routes_compared", Json::Int(out.routes_compared as i128)),
                ("frames_decoded", Json::Int(out.frames as i128)),
            ]));
        }
    }
    let _ = rep.finish();
}
