//! C01, end-to-end part — the neighbour's view converges to export(Loc-RIB) when the
//! *real session loop* schedules delivery and flushing.
//!
//! c01.rs drives the observing neighbour's `PeerSession` by hand (it pops the change
//! events and calls `flush_tx` itself).  Here the observing neighbour is a real session:
//! a `Global` with one configured neighbour (through `Global::add_peer`), a loopback
//! `TcpStream` handed to `accept_connection`, and `PeerSession::run` spawned on a
//! multi-thread runtime exactly as `Global::serve` does.  Which events are taken from
//! the channel, when the socket is polled writable, when `flush_tx` runs, what happens
//! when the socket is full, ROUTE-REFRESH / UPDATE / KEEPALIVE read from the wire: all of
//! that is `run` / `session_loop` / `run_select` / `apply_outputs`, not the harness.
//!
//! The remote end is scripted with the repo's own codec: OPEN (capabilities per
//! configuration), KEEPALIVE, optionally ROUTE-REFRESH and UPDATEs of its own; every
//! UPDATE it reads is folded into a mirror Adj-RIB-In with the normalisation of c01.rs.
//! The RIB side is the `TableManager` the session uses, driven with the operations c01.rs
//! generates (`World::apply`), from this thread or from 2–3 OS threads with delay
//! injection, while the session task runs.
//!
//! Quiescent points are found without wall-clock verdicts by a sentinel-prefix barrier
//! (announce a reserved prefix from a reserved source, read until it arrives, withdraw it,
//! read until the withdrawal arrives).  At a judged point the connection is closed, a
//! brand-new real session for the same neighbour is brought up against the unchanged RIB,
//! and what it is sent must equal the mirror; the new session observes the next epoch.
use super::super::*;
use super::c01 as base;
use super::common::*;
use base::{Key, Op, Val, World};
use bytes::BytesMut;
use std::collections::{BTreeMap, BTreeSet};
use std::net::{IpAddr, Ipv4Addr, Ipv6Addr, SocketAddr};
use std::sync::atomic::{AtomicBool, AtomicU64};
use tokio::net::{TcpListener, TcpStream};

const WATCHDOG_S: u64 = 20;
const RERUN_WATCHDOG_S: u64 = 30;
const KNOWN_SIG: &str = "C01/missing-route/addpath/refresh-read-ahead-of-recreated-prefix";

static TRACE: AtomicBool = AtomicBool::new(false);
fn trace() -> bool {
    TRACE.load(Ordering::Relaxed)
}

// ------------------------------------------------------------------ panics of the session task

static LAST_PANIC: std::sync::Mutex<Option<(String, String)>> = std::sync::Mutex::new(None);
static HOOK: std::sync::Once = std::sync::Once::new();

fn install_panic_hook() {
    HOOK.call_once(|| {
        let prev = std::panic::take_hook();
        std::panic::set_hook(Box::new(move |info| {
            let loc = info
                .location()
                .map(|l| format!("{}:{}", l.file(), l.line()))
                .unwrap_or_else(|| "?".into());
            let msg = if let Some(s) = info.payload().downcast_ref::<&str>() {
                s.to_string()
            } else if let Some(s) = info.payload().downcast_ref::<String>() {
                s.clone()
            } else {
                "<non-string panic>".into()
            };
            *LAST_PANIC.lock().unwrap() = Some((strip_repo(&loc), msg));
            prev(info);
        }));
    });
}

// ------------------------------------------------------------------ configuration

#[derive(Clone, Copy, Debug, PartialEq)]
enum Shape {
    /// the op mix of c01.rs
    Mixed,
    /// large bursts (one UPDATE per prefix) while the remote end does not read: the
    /// daemon's flush fills the socket and has to wait; changes keep arriving meanwhile
    Stall,
    /// one long history next to the others, hold time 3 s: silences long enough for the
    /// daemon's KEEPALIVE timer to fire between and into bursts of changes
    Idle,
}

#[derive(Clone, Debug)]
struct Cfg {
    obs: base::ObsCfg,
    shape: Shape,
    /// the remote end sends OPEN + KEEPALIVE at once instead of answering the daemon's OPEN
    eager_open: bool,
    ext_msg: bool,
    /// the export policy is the neighbour's own assignment (else the global one)
    per_peer_policy: bool,
    initial_policy: usize,
    /// the neighbour may send several paths per prefix as well (Add-Path both ways)
    rx_addpath: bool,
    /// an explicit route-reflector cluster id is configured for the neighbour
    rr_cluster: bool,
    small_buffers: bool,
    close_with_fin: bool,
    /// some RIB operations are applied before the first session comes up
    prepopulate: usize,
    hold: u16,
    stall_n: usize,
    /// the remote end sends a KEEPALIVE of its own before every barrier
    chatty: bool,
}

fn gen_cfg(rng: &mut Rng, thorough: bool) -> Cfg {
    let mut obs = base::gen_cfg(rng);
    obs.late_join = false;
    let shape = if rng.chance(1, 12) {
        Shape::Stall
    } else {
        Shape::Mixed
    };
    if shape == Shape::Stall {
        obs.obs_is_source = false;
    }
    Cfg {
        shape,
        eager_open: rng.chance(1, 4),
        ext_msg: rng.chance(1, 2),
        per_peer_policy: rng.chance(1, 2),
        initial_policy: if rng.chance(1, 3) { rng.usize(4) } else { 0 },
        rx_addpath: obs.addpath && obs.obs_is_source && rng.bool(),
        rr_cluster: rng.chance(1, 3),
        small_buffers: shape == Shape::Stall || rng.chance(1, 6),
        close_with_fin: rng.bool(),
        prepopulate: if rng.chance(1, 3) {
            rng.range(2, 10) as usize
        } else {
            0
        },
        hold: *rng.pick(&[90u16, 90, 30, 0]),
        stall_n: rng.range(250, if thorough { 3000 } else { 900 }) as usize,
        chatty: rng.chance(1, 3),
        obs,
    }
}

fn fam(cfg: &Cfg) -> Family {
    base::family(&cfg.obs)
}

fn branch(cfg: &Cfg) -> &'static str {
    if cfg.obs.addpath && cfg.obs.send_max > 1 {
        "addpath"
    } else {
        "plain"
    }
}

fn sentinel_nlri(v6: bool) -> packet::Nlri {
    if v6 {
        packet::Nlri::V6(bgp::Ipv6Net {
            addr: Ipv6Addr::new(0x2001, 0xdb8, 0xfffd, 0, 0, 0, 0, 0),
            mask: 48,
        })
    } else {
        packet::Nlri::V4(bgp::Ipv4Net {
            addr: Ipv4Addr::new(198, 18, 0, 0),
            mask: 24,
        })
    }
}

/// announced by the remote end itself (never echoed back): tells when the daemon has
/// consumed everything the remote end wrote before it
fn wire_sentinel_nlri(v6: bool) -> packet::Nlri {
    if v6 {
        packet::Nlri::V6(bgp::Ipv6Net {
            addr: Ipv6Addr::new(0x2001, 0xdb8, 0xfffc, 0, 0, 0, 0, 0),
            mask: 48,
        })
    } else {
        packet::Nlri::V4(bgp::Ipv4Net {
            addr: Ipv4Addr::new(198, 18, 1, 0),
            mask: 24,
        })
    }
}

fn sentinel_nexthop(v6: bool) -> bgp::Nexthop {
    if v6 {
        bgp::Nexthop::V6(Ipv6Addr::new(0x2001, 0xdb8, 0xffff, 0, 0, 0, 0, 0x99))
    } else {
        bgp::Nexthop::V4(Ipv4Addr::new(192, 0, 2, 199))
    }
}

fn bulk_nlri(v6: bool, i: usize) -> packet::Nlri {
    if v6 {
        packet::Nlri::V6(bgp::Ipv6Net {
            addr: Ipv6Addr::new(0x2001, 0xdb8, 0x1000 + i as u16, 0, 0, 0, 0, 0),
            mask: 48,
        })
    } else {
        packet::Nlri::V4(bgp::Ipv4Net {
            addr: Ipv4Addr::new(172, 16 + (i >> 8) as u8, (i & 255) as u8, 0),
            mask: 24,
        })
    }
}

fn med(v: u32) -> packet::Attribute {
    packet::Attribute::new_with_value(packet::Attribute::MULTI_EXIT_DESC, v).unwrap()
}

fn origin(v: u32) -> packet::Attribute {
    packet::Attribute::new_with_value(packet::Attribute::ORIGIN, v).unwrap()
}

fn remote_caps(cfg: &Cfg) -> Vec<packet::Capability> {
    let f = fam(cfg);
    let mut v = vec![
        packet::Capability::MultiProtocol(f),
        packet::Capability::RouteRefresh,
    ];
    if cfg.obs.as4 {
        v.push(packet::Capability::FourOctetAsNumber(base::peer_asn(
            cfg.obs.role,
            0,
        )));
    }
    if cfg.obs.addpath {
        v.push(packet::Capability::AddPath(vec![(
            f,
            if cfg.rx_addpath { 3 } else { 1 },
        )]));
    }
    if cfg.ext_msg {
        v.push(packet::Capability::ExtendedMessage);
    }
    v
}

// ------------------------------------------------------------------ failures of one run

#[derive(Clone, Debug)]
enum Fail {
    /// nothing (of what is awaited) arrived within the watchdog; the connection was open
    Stuck {
        stage: &'static str,
        detail: String,
    },
    /// a change never arrived although the session task delivers later changes
    Lost {
        stage: &'static str,
        detail: String,
    },
    /// the daemon ended the connection; NOTIFICATION (code, subcode) if one was read
    Closed {
        stage: &'static str,
        notif: Option<(u8, u8)>,
    },
    Panic {
        loc: String,
        msg: String,
    },
    Decode(String),
    Harness(String),
}

// ------------------------------------------------------------------ the scripted remote end

#[derive(Default, Clone, Debug)]
struct WireStats {
    frames: u64,
    updates: u64,
    reach_entries: u64,
    unreach_entries: u64,
    /// a key that was in the mirror was withdrawn
    withdrawals: u64,
    /// a key that was in the mirror was announced again with other content
    replacements: u64,
    readvertisements: u64,
    attr_errors: u64,
    withdraw_of_unknown: u64,
    eors: u64,
    keepalives: u64,
    bytes: u64,
}

impl WireStats {
    fn add(&mut self, o: &WireStats) {
        self.frames += o.frames;
        self.updates += o.updates;
        self.reach_entries += o.reach_entries;
        self.unreach_entries += o.unreach_entries;
        self.withdrawals += o.withdrawals;
        self.replacements += o.replacements;
        self.readvertisements += o.readvertisements;
        self.attr_errors += o.attr_errors;
        self.withdraw_of_unknown += o.withdraw_of_unknown;
        self.eors += o.eors;
        self.keepalives += o.keepalives;
        self.bytes += o.bytes;
    }
}

struct Remote {
    sock: TcpStream,
    codec: bgp::PeerCodec,
    my_caps: Vec<packet::Capability>,
    rx: BytesMut,
    mirror: BTreeMap<Key, Val>,
    sentinel: String,
    s_reach: u64,
    s_unreach: u64,
    opens: u64,
    notif: Option<(u8, u8)>,
    st: WireStats,
    /// per key, the wire events of this session: 'R' / 'U'
    log: BTreeMap<Key, String>,
    join: Option<tokio::task::JoinHandle<()>>,
    wd: std::time::Duration,
    /// routes the remote end itself has announced and not withdrawn (prefix index, path id)
    own: BTreeSet<(usize, u32)>,
    wire_dirty: bool,
    wire_tag: u32,
    snd_cap: u64,
}

impl Remote {
    fn fold(&mut self, parsed: bgp::ParsedMessage) -> Result<(), Fail> {
        self.st.frames += 1;
        match &parsed {
            bgp::ParsedMessage::Open(open) => {
                self.opens += 1;
                // from here on the daemon encodes with what both OPENs negotiate
                self.codec = bgp::PeerCodec::negotiate(&self.my_caps, &open.capability);
                return Ok(());
            }
            bgp::ParsedMessage::Keepalive => {
                self.st.keepalives += 1;
                return Ok(());
            }
            bgp::ParsedMessage::Notification(n) => {
                self.notif = Some((n.notification_code(), n.notification_subcode()));
                return Ok(());
            }
            bgp::ParsedMessage::RouteRefresh { .. } => return Ok(()),
            bgp::ParsedMessage::Update(bgp::ParsedUpdate::EndOfRib(_)) => {
                self.st.eors += 1;
                return Ok(());
            }
            bgp::ParsedMessage::Update(bgp::ParsedUpdate::Routes { error_attrs, .. }) => {
                self.st.updates += 1;
                if !error_attrs.is_empty() {
                    self.st.attr_errors += 1;
                }
            }
        }
        let msgs = bgp::validate_message(parsed, false)
            .map_err(|n| Fail::Decode(format!("validate_message rejected a frame: {:?}", n)))?;
        for m in msgs {
            match m {
                bgp::Message::Update(bgp::Update::Reach {
                    family,
                    entries,
                    nexthop,
                    attr,
                }) => {
                    let v = (
                        base::render_attrs(&attr),
                        nexthop
                            .map(|n| format!("{}", n))
                            .unwrap_or_else(|| "-".into()),
                    );
                    for e in entries {
                        let net = format!("{}", e.nlri);
                        if trace() {
                            eprintln!("    wire: REACH {} pid{} {:?}", net, e.path_id, v);
                        }
                        if net == self.sentinel {
                            self.s_reach += 1;
                            continue;
                        }
                        self.st.reach_entries += 1;
                        let k = (base::fam_id(family), net, e.path_id);
                        self.log.entry(k.clone()).or_default().push('R');
                        match self.mirror.insert(k, v.clone()) {
                            Some(old) if old != v => self.st.replacements += 1,
                            Some(_) => self.st.readvertisements += 1,
                            None => {}
                        }
                    }
                }
                bgp::Message::Update(bgp::Update::Unreach { family, entries }) => {
                    for e in entries {
                        let net = format!("{}", e.nlri);
                        if trace() {
                            eprintln!("    wire: UNREACH {} pid{}", net, e.path_id);
                        }
                        if net == self.sentinel {
                            self.s_unreach += 1;
                            continue;
                        }
                        self.st.unreach_entries += 1;
                        let k = (base::fam_id(family), net, e.path_id);
                        self.log.entry(k.clone()).or_default().push('U');
                        if self.mirror.remove(&k).is_some() {
                            self.st.withdrawals += 1;
                        } else {
                            self.st.withdraw_of_unknown += 1;
                        }
                    }
                }
                _ => {}
            }
        }
        Ok(())
    }

    fn parse_buffered(&mut self) -> Result<(), Fail> {
        loop {
            match self.codec.try_parse(&mut self.rx) {
                Ok(Some(parsed)) => self.fold(parsed)?,
                Ok(None) => return Ok(()),
                Err(n) => {
                    return Err(Fail::Decode(format!(
                        "peer-side codec rejected a frame: {:?}",
                        n
                    )));
                }
            }
        }
    }

    /// read and fold until `done`; the watchdog's firing is reported as `Stuck`
    async fn pump<F: Fn(&Remote) -> bool>(
        &mut self,
        done: F,
        stage: &'static str,
    ) -> Result<(), Fail> {
        let deadline = tokio::time::Instant::now() + self.wd;
        loop {
            self.parse_buffered()?;
            if done(self) {
                return Ok(());
            }
            if self.notif.is_some() {
                return Err(Fail::Closed {
                    stage,
                    notif: self.notif,
                });
            }
            match tokio::time::timeout_at(deadline, self.sock.readable()).await {
                Ok(Ok(())) => {}
                Ok(Err(_)) => {
                    return Err(Fail::Closed {
                        stage,
                        notif: self.notif,
                    });
                }
                Err(_) => {
                    return Err(Fail::Stuck {
                        stage,
                        detail: format!(
                            "nothing more to read within {} s (frames so far {}, session task {})",
                            self.wd.as_secs(),
                            self.st.frames,
                            if self.task_finished() {
                                "ended"
                            } else {
                                "running"
                            }
                        ),
                    });
                }
            }
            match self.sock.try_read_buf(&mut self.rx) {
                Ok(0) => {
                    self.parse_buffered()?;
                    return Err(Fail::Closed {
                        stage,
                        notif: self.notif,
                    });
                }
                Ok(n) => {
                    self.st.bytes += n as u64;
                    self.quickack();
                }
                Err(ref e) if e.kind() == std::io::ErrorKind::WouldBlock => {}
                Err(_) => {
                    self.parse_buffered()?;
                    return Err(Fail::Closed {
                        stage,
                        notif: self.notif,
                    });
                }
            }
        }
    }

    /// take what is readable right now, without waiting
    fn sip(&mut self) -> Result<(), Fail> {
        loop {
            match self.sock.try_read_buf(&mut self.rx) {
                Ok(0) => {
                    self.parse_buffered()?;
                    return Err(Fail::Closed {
                        stage: "mid-history",
                        notif: self.notif,
                    });
                }
                Ok(n) => {
                    self.st.bytes += n as u64;
                    self.quickack();
                }
                Err(ref e) if e.kind() == std::io::ErrorKind::WouldBlock => break,
                Err(_) => {
                    return Err(Fail::Closed {
                        stage: "mid-history",
                        notif: self.notif,
                    });
                }
            }
        }
        self.parse_buffered()
    }

    /// The daemon leaves Nagle's algorithm on; a remote end that delays its ACKs (it has
    /// nothing to send) would make every barrier wait for the delayed-ACK timer.  Ask
    /// the kernel to acknowledge at once (the option has to be renewed after each read).
    fn quickack(&self) {
        let _ = socket2::SockRef::from(&self.sock).set_tcp_quickack(true);
    }

    /// bytes waiting in the receive queue of the remote end's socket
    fn unread(&self) -> u64 {
        use std::os::fd::AsRawFd;
        let mut n: libc::c_int = 0;
        // SAFETY: FIONREAD writes one int
        let rc = unsafe { libc::ioctl(self.sock.as_raw_fd(), libc::FIONREAD, &mut n) };
        if rc == 0 { n.max(0) as u64 } else { 0 }
    }

    /// wait (bounded, no verdict depends on it) until the amount of unread data has
    /// stopped growing: the daemon is then idle or waiting for the socket
    async fn wait_unread_stable(&self) -> u64 {
        let mut last = self.unread();
        let mut same = 0;
        for _ in 0..300 {
            tokio::time::sleep(std::time::Duration::from_micros(500)).await;
            let now = self.unread();
            if now == last {
                same += 1;
                if same >= 6 {
                    break;
                }
            } else {
                same = 0;
                last = now;
            }
        }
        last
    }

    fn task_finished(&self) -> bool {
        self.join.as_ref().map(|j| j.is_finished()).unwrap_or(true)
    }

    async fn send(&mut self, msgs: &[bgp::Message], stage: &'static str) -> Result<(), Fail> {
        use tokio::io::AsyncWriteExt;
        let mut buf = BytesMut::with_capacity(4096);
        for m in msgs {
            self.codec.encode_to(m, &mut buf).map_err(|e| {
                Fail::Harness(format!("the remote end cannot encode a message: {:?}", e))
            })?;
        }
        match tokio::time::timeout(self.wd, self.sock.write_all(&buf)).await {
            Ok(Ok(())) => Ok(()),
            Ok(Err(_)) => Err(Fail::Closed {
                stage,
                notif: self.notif,
            }),
            Err(_) => Err(Fail::Stuck {
                stage,
                detail: "the daemon does not read what the remote end writes".into(),
            }),
        }
    }
}

// ------------------------------------------------------------------ the daemon side

/// The RIB side of one history: usable from any thread.
struct Rib {
    cfg: Cfg,
    world: Arc<World>,
    tables: TableHandle,
    /// the neighbour as the daemon knows it
    addr: IpAddr,
    state: Arc<PeerState>,
    sentinel_src: Arc<table::Source>,
    tag: AtomicU64,
}

impl Rib {
    fn set_export_policy(&self, idx: usize) {
        let p = self.world.exp[idx % self.world.exp.len()].clone();
        if self.cfg.per_peer_policy {
            // what add_policy_assignment / delete_policy_assignment do for a neighbour's name
            self.state.export_policy.store(p);
        } else {
            self.tables.export_policy.store(p);
        }
    }

    /// a RIB-side / configuration operation
    fn apply(&self, op: &Op) -> bool {
        match *op {
            Op::ExportPolicy { idx } => {
                self.set_export_policy(idx);
                self.tables.soft_reset_out(self.addr);
                true
            }
            Op::ImportPolicy { idx, peer: 0 } => {
                self.tables
                    .import_policy
                    .store(self.world.imp[idx % self.world.imp.len()].clone());
                self.tables.soft_reset_in(self.addr);
                true
            }
            Op::Announce { peer: 0, .. } | Op::Withdraw { peer: 0, .. } => false,
            _ => self.world.apply(op),
        }
    }

    fn apply_all(&self, ops: &[Op]) -> Vec<Op> {
        let mut applied = Vec::new();
        for o in ops {
            if self.apply(o) {
                applied.push(o.clone());
            }
        }
        applied
    }

    fn next_tag(&self) -> u32 {
        self.tag.fetch_add(1, Ordering::Relaxed) as u32
    }

    fn sentinel_up(&self) {
        let v6 = self.cfg.obs.v6;
        let t = self.next_tag();
        self.tables.insert_route(
            self.sentinel_src.clone(),
            fam(&self.cfg),
            packet::PathNlri {
                path_id: 0,
                nlri: sentinel_nlri(v6),
            },
            Some(sentinel_nexthop(v6)),
            Arc::new(vec![origin(0), base::as_path(&[65250]), med(900_000 + t)]),
            None,
            t,
        );
    }

    fn sentinel_down(&self) {
        let t = self.next_tag();
        self.tables.remove_route(
            self.sentinel_src.clone(),
            fam(&self.cfg),
            packet::PathNlri {
                path_id: 0,
                nlri: sentinel_nlri(self.cfg.obs.v6),
            },
            None,
            t,
        );
    }

    /// MED of the wire sentinel currently in the neighbour's Adj-RIB-In
    fn wire_sentinel_tag(&self) -> Option<u32> {
        let d = self.tables.collect_paths(
            table::TableQuery::AdjIn(self.addr),
            fam(&self.cfg),
            vec![table::PrefixFilter {
                prefix: wire_sentinel_nlri(self.cfg.obs.v6),
                lookup_type: table::LookupType::Exact,
            }],
            true,
        );
        d.iter().flat_map(|d| d.paths.iter()).find_map(|p| {
            p.attr
                .iter()
                .find(|a| a.code() == packet::Attribute::MULTI_EXIT_DESC)
                .and_then(|a| a.value())
        })
    }

    fn bulk_announce(&self, i: usize, m: u32) {
        let src = self.world.peers[1 + i % 3].lock().unwrap().src.clone();
        self.tables.insert_route(
            src,
            fam(&self.cfg),
            packet::PathNlri {
                path_id: 0,
                nlri: bulk_nlri(self.cfg.obs.v6, i),
            },
            Some(base::nexthop(&self.cfg.obs, i % 2)),
            Arc::new(vec![
                origin((i % 3 == 2) as u32 * 2),
                base::as_path(&[64900 + (i % 5) as u32]),
                med(m),
            ]),
            None,
            self.next_tag(),
        );
    }

    fn bulk_withdraw(&self, i: usize) {
        let src = self.world.peers[1 + i % 3].lock().unwrap().src.clone();
        self.tables.remove_route(
            src,
            fam(&self.cfg),
            packet::PathNlri {
                path_id: 0,
                nlri: bulk_nlri(self.cfg.obs.v6, i),
            },
            None,
            self.next_tag(),
        );
    }
}

struct Env {
    cfg: Cfg,
    rib: Arc<Rib>,
    global: GlobalHandle,
    tables: TableHandle,
    active_tx: mpsc::UnboundedSender<TcpStream>,
    _active_rx: mpsc::UnboundedReceiver<TcpStream>,
    wd: std::time::Duration,
    expected_role: PeerRole,
    /// wall time spent in session set-up / barriers / session end (cost accounting only)
    us: [AtomicU64; 3],
}

impl Env {
    fn new(cfg: &Cfg, addr: IpAddr, wd: std::time::Duration) -> Result<Env, Fail> {
        let world = Arc::new(World::new(&cfg.obs));
        let tables = world.tables.clone();
        let (ktx, _krx) = mpsc::unbounded_channel();
        let (btx, _brx) = mpsc::unbounded_channel();
        let mut g = Global::new(ktx, btx);
        g.asn = base::LOCAL_ASN;
        g.router_id = Ipv4Addr::new(1, 0, 0, 1);
        if cfg.obs.confed_id != 0 {
            let mut members = FnvHashSet::default();
            members.insert(base::LOCAL_ASN);
            members.insert(base::peer_asn(PeerRole::ConfedEbgp, 0));
            g.confederation = Some(ConfederationConfig {
                id: cfg.obs.confed_id,
                members,
            });
        }
        let f = fam(cfg);
        let role = cfg.obs.role;
        let mut families: FnvHashMap<Family, u8> = FnvHashMap::default();
        families.insert(
            f,
            if cfg.obs.addpath {
                if cfg.rx_addpath { 3 } else { 2 }
            } else {
                0
            },
        );
        let mut send_max: FnvHashMap<Family, usize> = FnvHashMap::default();
        if cfg.obs.addpath {
            send_max.insert(f, cfg.obs.send_max);
        }
        let params = PeerParams {
            remote_addr: addr,
            remote_port: Global::BGP_PORT,
            expected_remote_asn: base::peer_asn(role, 0),
            local_asn: 0,
            passive: true,
            rs_client: role == PeerRole::RsClient,
            route_reflector: RouteReflectorConfig {
                route_reflector_client: role == PeerRole::IbgpRrClient,
                route_reflector_cluster_id: if cfg.rr_cluster {
                    Some(Ipv4Addr::new(1, 0, 0, 9))
                } else {
                    None
                },
            },
            delete_on_disconnected: false,
            admin_down: false,
            state: SessionState::Idle,
            holdtime: cfg.hold as u64,
            connect_retry_time: PeerParams::DEFAULT_CONNECT_RETRY_TIME,
            multihop_ttl: None,
            ttl_security: None,
            password: None,
            families,
            send_max,
            prefix_limits: FnvHashMap::default(),
            graceful_restart: None,
            llgr: None,
            bfd_config: None,
            neighbor_interface: None,
            bind_interface: None,
            export_policy: None,
        };
        g.add_peer(params, None)
            .map_err(|e| Fail::Harness(format!("add_peer: {}", e)))?;
        let state = g.peers.get(&addr).unwrap().state.clone();
        let (active_tx, _active_rx) = mpsc::unbounded_channel::<TcpStream>();
        let srole = if role == PeerRole::RsClient {
            PeerRole::RsClient
        } else {
            PeerRole::Ebgp
        };
        let sentinel_src = Arc::new(table::Source::new(
            IpAddr::V4(Ipv4Addr::new(192, 0, 2, 250)),
            IpAddr::V4(Ipv4Addr::new(192, 0, 2, 1)),
            65250,
            base::LOCAL_ASN,
            Ipv4Addr::new(9, 9, 9, 250),
            srole,
        ));
        let rib = Arc::new(Rib {
            cfg: cfg.clone(),
            world,
            tables: tables.clone(),
            addr,
            state,
            sentinel_src,
            tag: AtomicU64::new(1),
        });
        rib.set_export_policy(cfg.initial_policy);
        Ok(Env {
            cfg: cfg.clone(),
            rib,
            global: Arc::new(tokio::sync::RwLock::new(g)),
            tables,
            active_tx,
            _active_rx,
            wd,
            expected_role: role,
            us: [AtomicU64::new(0), AtomicU64::new(0), AtomicU64::new(0)],
        })
    }

    async fn open_session(&self, listener: &TcpListener) -> Result<Remote, Fail> {
        let t0 = std::time::Instant::now();
        let r = self.open_session_inner(listener).await;
        self.us[0].fetch_add(t0.elapsed().as_micros() as u64, Ordering::Relaxed);
        r
    }

    async fn open_session_inner(&self, listener: &TcpListener) -> Result<Remote, Fail> {
        let la = listener
            .local_addr()
            .map_err(|e| Fail::Harness(e.to_string()))?;
        let client = crate::verif_hooks::connect_retry(la)
            .await
            .map_err(|e| Fail::Harness(format!("connect: {}", e)))?;
        let (server, _) = listener
            .accept()
            .await
            .map_err(|e| Fail::Harness(format!("accept: {}", e)))?;
        crate::verif_hooks::no_time_wait(&server);
        let _ = client.set_nodelay(true);
        if self.cfg.small_buffers {
            // the kernel's minimum applies; the point is that a burst does not fit
            let _ = socket2::SockRef::from(&client).set_recv_buffer_size(4096);
            let _ = socket2::SockRef::from(&server).set_send_buffer_size(4096);
        }
        // upper bound of what the daemon's send queue can take (the kernel reports the
        // bookkeeping size, which is more than the payload it holds)
        let snd_cap = socket2::SockRef::from(&server)
            .send_buffer_size()
            .unwrap_or(1 << 22) as u64;
        let session = accept_connection(
            &self.global,
            &self.tables,
            server,
            crate::fsm::Role::Passive,
        )
        .await
        .ok_or_else(|| Fail::Harness("accept_connection refused the connection".into()))?;
        if session.export_ctx.role != self.expected_role {
            return Err(Fail::Harness(format!(
                "session role {:?}, configuration wanted {:?}",
                session.export_ctx.role, self.expected_role
            )));
        }
        // Global::serve: tokio::spawn(h.run(global.clone(), active_tx.clone()))
        let arb = session.conn_arbiter.clone();
        let join = tokio::spawn(session.run(self.global.clone(), self.active_tx.clone()));
        let _ = arb;
        let my_caps = remote_caps(&self.cfg);
        let mut r = Remote {
            sock: client,
            codec: bgp::PeerCodec::new(),
            my_caps: my_caps.clone(),
            rx: BytesMut::with_capacity(1 << 16),
            mirror: BTreeMap::new(),
            sentinel: format!("{}", sentinel_nlri(self.cfg.obs.v6)),
            s_reach: 0,
            s_unreach: 0,
            opens: 0,
            notif: None,
            st: WireStats::default(),
            log: BTreeMap::new(),
            join: Some(join),
            wd: self.wd,
            own: BTreeSet::new(),
            wire_dirty: false,
            wire_tag: 0,
            snd_cap,
        };
        let open = bgp::Message::Open(bgp::Open {
            as_number: base::peer_asn(self.cfg.obs.role, 0),
            holdtime: HoldTime::new(self.cfg.hold).unwrap_or(HoldTime::DISABLED),
            router_id: u32::from(Ipv4Addr::new(9, 9, 9, 9)),
            capability: my_caps,
        });
        if self.cfg.eager_open {
            r.send(&[open, bgp::Message::Keepalive], "handshake")
                .await?;
            r.pump(|r| r.opens > 0 && r.st.keepalives > 0, "handshake")
                .await?;
        } else {
            // RFC 4271 8.2.2: OPEN, then KEEPALIVE in answer to the peer's OPEN
            r.send(&[open], "handshake").await?;
            r.pump(|r| r.opens > 0, "handshake").await?;
            r.send(&[bgp::Message::Keepalive], "handshake").await?;
            r.pump(|r| r.st.keepalives > 0, "handshake").await?;
        }
        Ok(r)
    }

    /// Quiescent point: everything the RIB-side operations issued so far have caused is
    /// on the wire and folded when this returns.
    async fn barrier(&self, r: &mut Remote, first: bool) -> Result<(), Fail> {
        let t0 = std::time::Instant::now();
        let res = self.barrier_inner(r, first).await;
        self.us[1].fetch_add(t0.elapsed().as_micros() as u64, Ordering::Relaxed);
        res
    }

    async fn barrier_inner(&self, r: &mut Remote, first: bool) -> Result<(), Fail> {
        if self.cfg.chatty && !first {
            r.send(&[bgp::Message::Keepalive], "mid-history").await?;
        }
        if r.wire_dirty {
            self.wire_barrier(r).await?;
        }
        let a = r.s_reach;
        self.rib.sentinel_up();
        let stage = if first {
            "first-announcement"
        } else {
            "announcement-delivery"
        };
        let res = r.pump(|r| r.s_reach > a, stage).await;
        if let Err(e) = res {
            self.rib.sentinel_down();
            if matches!(e, Fail::Stuck { .. }) {
                // Does the session deliver at all?  Announce the sentinel once more.
                let wd = r.wd;
                r.wd = std::time::Duration::from_secs(5);
                self.rib.sentinel_up();
                let again = r.pump(|r| r.s_reach > a, stage).await;
                self.rib.sentinel_down();
                r.wd = wd;
                if again.is_ok() {
                    return Err(Fail::Lost {
                        stage,
                        detail: "the announcement of the sentinel prefix never arrived; a second announcement of it, made after the watchdog fired, did".into(),
                    });
                }
            }
            return Err(e);
        }
        let b = r.s_unreach;
        self.rib.sentinel_down();
        let res = r.pump(|r| r.s_unreach > b, "withdrawal-delivery").await;
        if let Err(Fail::Stuck { .. }) = &res {
            let wd = r.wd;
            r.wd = std::time::Duration::from_secs(5);
            let a2 = r.s_reach;
            self.rib.sentinel_up();
            let mut again = r.pump(|r| r.s_reach > a2, "withdrawal-delivery").await;
            self.rib.sentinel_down();
            if again.is_ok() {
                again = r.pump(|r| r.s_unreach > b, "withdrawal-delivery").await;
            }
            r.wd = wd;
            if again.is_ok() {
                return Err(Fail::Lost {
                    stage: "withdrawal-delivery",
                    detail: "the withdrawal of the sentinel prefix never arrived; after a second announcement + withdrawal of it, made after the watchdog fired, it did".into(),
                });
            }
        }
        res
    }

    /// everything the remote end has written so far has been consumed by the daemon
    async fn wire_barrier(&self, r: &mut Remote) -> Result<(), Fail> {
        let v6 = self.cfg.obs.v6;
        r.wire_tag += 1;
        let tag = 700_000 + r.wire_tag;
        let m = bgp::Message::Update(bgp::Update::Reach {
            family: fam(&self.cfg),
            entries: vec![packet::PathNlri {
                path_id: 0,
                nlri: wire_sentinel_nlri(v6),
            }],
            nexthop: Some(sentinel_nexthop(v6)),
            attr: Arc::new(vec![origin(0), base::as_path(&[64999]), med(tag)]),
        });
        r.send(&[m], "wire-barrier").await?;
        let start = std::time::Instant::now();
        let mut i = 0u32;
        loop {
            if self.rib.wire_sentinel_tag() == Some(tag) {
                r.wire_dirty = false;
                return Ok(());
            }
            // keep the daemon's send side unblocked while waiting
            r.sip()?;
            if r.notif.is_some() || r.task_finished() {
                return Err(Fail::Closed {
                    stage: "wire-barrier",
                    notif: r.notif,
                });
            }
            if start.elapsed() >= self.wd {
                return Err(Fail::Stuck {
                    stage: "receive-path",
                    detail: "an UPDATE written by the remote end did not reach the Adj-RIB-In"
                        .into(),
                });
            }
            i += 1;
            if i < 100 {
                tokio::task::yield_now().await;
            } else {
                tokio::time::sleep(std::time::Duration::from_micros(200)).await;
            }
        }
    }

    /// end the session from the remote side and wait for the session task
    async fn close(&self, r: Remote) -> Result<WireStats, Fail> {
        let t0 = std::time::Instant::now();
        let res = self.close_inner(r).await;
        self.us[2].fetch_add(t0.elapsed().as_micros() as u64, Ordering::Relaxed);
        res
    }

    async fn close_inner(&self, mut r: Remote) -> Result<WireStats, Fail> {
        use tokio::io::AsyncWriteExt;
        let st = r.st.clone();
        let join = r.join.take();
        if self.cfg.close_with_fin {
            let _ = r.sock.shutdown().await;
        }
        drop(r);
        if let Some(j) = join {
            match tokio::time::timeout(self.wd, j).await {
                Ok(Ok(())) => {}
                Ok(Err(e)) => {
                    if e.is_panic() {
                        let (loc, msg) = LAST_PANIC
                            .lock()
                            .unwrap()
                            .take()
                            .unwrap_or_else(|| ("?".into(), "?".into()));
                        return Err(Fail::Panic { loc, msg });
                    }
                }
                Err(_) => {
                    return Err(Fail::Stuck {
                        stage: "session-end",
                        detail: "the session task did not end after the connection was closed"
                            .into(),
                    });
                }
            }
        }
        Ok(st)
    }
}

// ------------------------------------------------------------------ one history

#[derive(Clone, Debug)]
struct Mismatch {
    kind: &'static str,
    detail: Vec<String>,
    /// RIB-side / wire operations of the epoch that ended with the mismatch
    epoch_ops: Vec<String>,
    /// the known refresh-ahead-of-recreated-prefix pattern explains every missing key
    known_pattern: bool,
    wire_logs: Vec<String>,
    last_source_op: &'static str,
}

#[derive(Default)]
struct Outcome {
    mismatch: Option<Mismatch>,
    fail: Option<Fail>,
    epochs: u64,
    barriers: u64,
    sessions: u64,
    routes_compared: u64,
    applied: BTreeMap<&'static str, u64>,
    wire: WireStats,
    rr_round_trips: u64,
    wire_announces: u64,
    bursts: u64,
    sched_hits: u64,
    late_joins: u64,
    late_joins_overlapped: u64,
    stall_blocked: u64,
    stall_bytes: u64,
    max_epoch_routes: u64,
    eager: bool,
    keepalives_mid_session: u64,
    hold_timer_expiries: u64,
    idle_rounds: u64,
    us_open: u64,
    us_barrier: u64,
    us_close: u64,
}

fn is_rib_op(o: &Op) -> bool {
    !matches!(
        o,
        Op::Deliver { .. } | Op::Flush | Op::Check | Op::RouteRefresh
    )
}

fn is_wire_op(o: &Op) -> bool {
    matches!(
        o,
        Op::Announce { peer: 0, .. } | Op::Withdraw { peer: 0, .. } | Op::RouteRefresh
    )
}

fn group_of(o: &Op) -> usize {
    match o {
        Op::Announce { peer, .. }
        | Op::Withdraw { peer, .. }
        | Op::PeerDown { peer }
        | Op::GrDown { peer }
        | Op::GrUp { peer }
        | Op::StalePurge { peer }
        | Op::LlgrMark { peer }
        | Op::LlgrPurge { peer } => peer % 3,
        _ => 0,
    }
}

struct Run<'a> {
    env: &'a Env,
    listener: &'a TcpListener,
    out: Outcome,
    /// operations since the last judged point
    epoch: Vec<Op>,
    epoch_has_refresh: bool,
}

impl<'a> Run<'a> {
    fn note(&mut self, op: &Op) {
        *self.out.applied.entry(op.kind()).or_insert(0) += 1;
        if matches!(op, Op::ExportPolicy { .. } | Op::RouteRefresh) {
            self.epoch_has_refresh = true;
        }
        self.epoch.push(op.clone());
    }

    /// an operation the remote end performs on the wire
    async fn wire_op(&mut self, r: &mut Remote, op: &Op) -> Result<(), Fail> {
        let cfg = &self.env.cfg;
        let f = fam(cfg);
        match *op {
            Op::Announce {
                pfx, pid, attr, nh, ..
            } => {
                let pid = if cfg.rx_addpath { pid } else { 0 };
                let m = bgp::Message::Update(bgp::Update::Reach {
                    family: f,
                    entries: vec![packet::PathNlri {
                        path_id: pid,
                        nlri: base::prefix(&cfg.obs, pfx),
                    }],
                    nexthop: Some(base::nexthop(&cfg.obs, nh)),
                    attr: self.env.rib.world.attrs[attr].clone(),
                });
                r.send(&[m], "mid-history").await?;
                r.own.insert((pfx, pid));
                r.wire_dirty = true;
                self.out.wire_announces += 1;
            }
            Op::Withdraw { pfx, pid, .. } => {
                let pid = if cfg.rx_addpath { pid } else { 0 };
                let m = bgp::Message::Update(bgp::Update::Unreach {
                    family: f,
                    entries: vec![packet::PathNlri {
                        path_id: pid,
                        nlri: base::prefix(&cfg.obs, pfx),
                    }],
                });
                r.send(&[m], "mid-history").await?;
                r.own.remove(&(pfx, pid));
                r.wire_dirty = true;
            }
            Op::RouteRefresh => {
                r.send(&[bgp::Message::RouteRefresh { family: f }], "mid-history")
                    .await?;
                r.wire_dirty = true;
                self.out.rr_round_trips += 1;
            }
            _ => {}
        }
        self.note(op);
        Ok(())
    }

    /// RIB-side operations from up to three OS threads while this task performs the wire
    /// operations of the burst and keeps (or does not keep) reading
    async fn burst(
        &mut self,
        r: &mut Remote,
        ops: &[Op],
        read_meanwhile: bool,
    ) -> Result<(), Fail> {
        let mut groups: Vec<Vec<Op>> = vec![Vec::new(), Vec::new(), Vec::new()];
        let mut wire: Vec<Op> = Vec::new();
        for o in ops {
            if is_wire_op(o) {
                wire.push(o.clone());
            } else {
                groups[group_of(o)].push(o.clone());
            }
        }
        let mut handles = Vec::new();
        for (g, gops) in groups.into_iter().enumerate() {
            if gops.is_empty() {
                continue;
            }
            let rib = self.env.rib.clone();
            handles.push(std::thread::spawn(move || {
                crate::verif_hooks::set_thread_id(1 + g as u32);
                rib.apply_all(&gops)
            }));
        }
        let mut res: Result<(), Fail> = Ok(());
        let mut wi = 0usize;
        let mut spin = 0u64;
        while handles.iter().any(|h| !h.is_finished()) || wi < wire.len() {
            spin += 1;
            if wi < wire.len() && res.is_ok() {
                let o = wire[wi].clone();
                wi += 1;
                if let Err(e) = self.wire_op(r, &o).await {
                    res = Err(e);
                }
            } else if wi < wire.len() {
                wi = wire.len();
            }
            if read_meanwhile && spin % 3 == 0 && res.is_ok() {
                if let Err(e) = r.sip() {
                    res = Err(e);
                }
            }
            tokio::task::yield_now().await;
        }
        for h in handles {
            match h.join() {
                Ok(applied) => {
                    for o in applied {
                        self.note(&o);
                    }
                }
                Err(_) => res = Err(Fail::Harness("source thread panicked".into())),
            }
        }
        self.out.bursts += 1;
        res
    }

    /// judged point: quiesce, close, bring up a brand-new session, compare
    async fn check(&mut self, r: Remote) -> Result<Remote, Fail> {
        let mut r = r;
        let env = self.env;
        // the neighbour's own routes go away with its session: take them out first so that
        // the RIB is the same before and after the restart
        if !r.own.is_empty() {
            let f = fam(&env.cfg);
            let entries: Vec<packet::PathNlri> = r
                .own
                .iter()
                .map(|(pfx, pid)| packet::PathNlri {
                    path_id: *pid,
                    nlri: base::prefix(&env.cfg.obs, *pfx),
                })
                .collect();
            r.send(
                &[bgp::Message::Update(bgp::Update::Unreach {
                    family: f,
                    entries,
                })],
                "mid-history",
            )
            .await?;
            r.own.clear();
            r.wire_dirty = true;
        }
        env.barrier(&mut r, false).await?;
        self.out.barriers += 1;
        let view = std::mem::take(&mut r.mirror);
        let log = std::mem::take(&mut r.log);
        let st = env.close(r).await?;
        self.out.wire.add(&st);
        let mut fresh = env.open_session(self.listener).await?;
        self.out.sessions += 1;
        env.barrier(&mut fresh, true).await?;
        self.out.barriers += 1;
        self.out.epochs += 1;
        self.out.routes_compared += fresh.mirror.len() as u64;
        self.out.max_epoch_routes = self.out.max_epoch_routes.max(fresh.mirror.len() as u64);
        if let Some((kind, detail)) = base::diff(&view, &fresh.mirror) {
            let known_pattern = self.known_pattern(kind, &view, &fresh.mirror, &log);
            let mut keys: BTreeSet<Key> = BTreeSet::new();
            for k in view.keys() {
                if fresh.mirror.get(k) != view.get(k) {
                    keys.insert(k.clone());
                }
            }
            for k in fresh.mirror.keys() {
                if !view.contains_key(k) {
                    keys.insert(k.clone());
                }
            }
            let wire_logs = keys
                .iter()
                .map(|k| {
                    format!(
                        "{} pid{}: wire events of the old session {:?}",
                        k.1,
                        k.2,
                        log.get(k).cloned().unwrap_or_default()
                    )
                })
                .collect();
            let last_source_op = self
                .epoch
                .iter()
                .rev()
                .find(|o| is_rib_op(o) || matches!(o, Op::RouteRefresh))
                .map(|o| o.kind())
                .unwrap_or("none");
            self.out.mismatch = Some(Mismatch {
                kind,
                detail,
                epoch_ops: self.epoch.iter().map(|o| format!("{:?}", o)).collect(),
                known_pattern,
                wire_logs,
                last_source_op,
            });
            let st = env.close(fresh).await.unwrap_or_default();
            self.out.wire.add(&st);
            return Err(Fail::Harness("mismatch".into()));
        }
        self.epoch.clear();
        self.epoch_has_refresh = false;
        Ok(fresh)
    }

    /// The one open finding: an Add-Path neighbour (send-max > 1) lacks (N, path id) because
    /// a route refresh / soft reset out ran while the removal and re-creation events of N
    /// were still queued.  Recognised only when, for every missing key, the epoch contains
    /// a refresh trigger, N was removed and announced (again) in the epoch, and the last
    /// thing the old session put on the wire for the key is an explicit withdrawal.
    fn known_pattern(
        &self,
        kind: &str,
        view: &BTreeMap<Key, Val>,
        fresh: &BTreeMap<Key, Val>,
        log: &BTreeMap<Key, String>,
    ) -> bool {
        let cfg = &self.env.cfg;
        if kind != "missing-route" || branch(cfg) != "addpath" || !self.epoch_has_refresh {
            return false;
        }
        let missing: Vec<&Key> = fresh.keys().filter(|k| !view.contains_key(*k)).collect();
        if missing.is_empty() {
            return false;
        }
        missing.iter().all(|k| {
            let name = &k.1;
            // removed entirely and announced again AFTER a refresh trigger of this epoch
            let recreated = base::recreated_after_refresh(&cfg.obs, &self.epoch, name);
            let withdrawn_last = log.get(*k).is_some_and(|l| l.ends_with('U'));
            recreated && withdrawn_last
        })
    }
}

async fn run_mixed(run: &mut Run<'_>, ops: &[Op]) -> Result<(), Fail> {
    let env = run.env;
    let cfg = env.cfg.clone();
    let mut skip_until = 0usize;
    // ---- operations applied before the neighbour's first session exists
    let pre = if cfg.obs.concurrent && cfg.obs.late_join {
        0
    } else {
        cfg.prepopulate.min(ops.len())
    };
    for o in ops.iter().take(pre) {
        if is_rib_op(o) && !is_wire_op(o) && env.rib.apply(o) {
            run.note(o);
        }
    }
    skip_until = skip_until.max(pre);
    // ---- the session comes up, possibly in the middle of a burst
    let mut late_threads = Vec::new();
    if cfg.obs.concurrent && cfg.obs.late_join {
        let head: Vec<Op> = ops
            .iter()
            .take(30)
            .filter(|o| is_rib_op(o) && !is_wire_op(o))
            .cloned()
            .collect();
        skip_until = ops.len().min(30);
        let (before, during) = head.split_at(head.len() / 2);
        for o in before {
            if env.rib.apply(o) {
                run.note(o);
            }
        }
        // A change of the export policy (+ soft reset out) addresses the neighbour's
        // session; racing the establishment of that session it is outside the statement
        // (c01.rs documents the false alarm).  Such steps are applied before.
        let (cfg_steps, during): (Vec<Op>, Vec<Op>) = during
            .iter()
            .cloned()
            .partition(|o| matches!(o, Op::ExportPolicy { .. }));
        for o in &cfg_steps {
            if env.rib.apply(o) {
                run.note(o);
            }
        }
        let mut groups: Vec<Vec<Op>> = vec![Vec::new(), Vec::new(), Vec::new()];
        for o in during {
            groups[group_of(&o)].push(o);
        }
        for (g, gops) in groups.into_iter().enumerate() {
            if gops.is_empty() {
                continue;
            }
            let rib = env.rib.clone();
            late_threads.push(std::thread::spawn(move || {
                crate::verif_hooks::set_thread_id(1 + g as u32);
                rib.apply_all(&gops)
            }));
        }
        run.out.late_joins += 1;
    }
    let opened = env.open_session(run.listener).await;
    if late_threads.iter().any(|h| !h.is_finished()) {
        run.out.late_joins_overlapped += 1;
    }
    for h in late_threads {
        match h.join() {
            Ok(applied) => {
                for o in applied {
                    run.note(&o);
                }
            }
            Err(_) => return Err(Fail::Harness("source thread panicked".into())),
        }
    }
    let mut r = opened?;
    run.out.sessions += 1;
    env.barrier(&mut r, true).await?;
    run.out.barriers += 1;
    if cfg.obs.concurrent && cfg.obs.late_join {
        // judge what the session that joined late has converged to
        r = run.check(r).await?;
    }
    let mut i = 0usize;
    while i < ops.len() {
        if i < skip_until {
            i += 1;
            continue;
        }
        let op = &ops[i];
        if trace() {
            eprintln!("  op {:?}", op);
        }
        if cfg.obs.concurrent && (is_rib_op(op) || is_wire_op(op)) {
            let mut j = i;
            while j < ops.len() && (is_rib_op(&ops[j]) || is_wire_op(&ops[j])) && j - i < 12 {
                j += 1;
            }
            let read = fnv64(format!("{:?}", &ops[i..j]).as_bytes()) % 2 == 0;
            let res = run.burst(&mut r, &ops[i..j], read).await;
            if let Err(e) = res {
                let _ = env.close(r).await;
                return Err(e);
            }
            i = j;
            continue;
        }
        let res: Result<(), Fail> = match op {
            Op::Deliver { k } => {
                for _ in 0..*k {
                    tokio::task::yield_now().await;
                }
                r.sip()
            }
            Op::Flush => {
                run.out.barriers += 1;
                env.barrier(&mut r, false).await
            }
            Op::Check => match run.check(r).await {
                Ok(n) => {
                    r = n;
                    Ok(())
                }
                Err(e) => return Err(e),
            },
            o if is_wire_op(o) => run.wire_op(&mut r, o).await,
            o => {
                if env.rib.apply(o) {
                    run.note(o);
                }
                Ok(())
            }
        };
        if let Err(e) = res {
            let _ = env.close(r).await;
            return Err(e);
        }
        i += 1;
    }
    let st = env.close(r).await?;
    run.out.wire.add(&st);
    Ok(())
}

/// Large bursts against a remote end that does not read: the socket fills, `flush_tx`
/// has to wait in the middle of a batch, change events keep queueing behind it.
async fn run_stall(run: &mut Run<'_>, seed: u64) -> Result<(), Fail> {
    let env = run.env;
    let cfg = env.cfg.clone();
    let mut rng = Rng::new(seed ^ 0x57a11);
    let n = cfg.stall_n;
    let mut r = env.open_session(run.listener).await?;
    run.out.sessions += 1;
    env.barrier(&mut r, true).await?;
    run.out.barriers += 1;
    let rib = env.rib.clone();
    let announce = |i: usize, m: u32| rib.bulk_announce(i, m);
    let withdraw = |i: usize| rib.bulk_withdraw(i);
    for round in 0..2 {
        let before = r.st.bytes;
        // ---- the remote end does not read from here on
        if cfg.obs.concurrent {
            crate::verif_hooks::install(seed ^ round, 40);
            let hs: Vec<_> = (0..3usize)
                .map(|g| {
                    let rib = env.rib.clone();
                    std::thread::spawn(move || {
                        crate::verif_hooks::set_thread_id(1 + g as u32);
                        for i in (0..n).filter(|i| i % 3 == g) {
                            rib.bulk_announce(i, 10_000 + (round as u32) * 100_000 + i as u32);
                        }
                    })
                })
                .collect();
            for h in hs {
                if h.join().is_err() {
                    return Err(Fail::Harness("source thread panicked".into()));
                }
            }
            let (hits, _) = crate::verif_hooks::uninstall();
            run.out.sched_hits += hits;
            run.out.bursts += 1;
        } else {
            for i in 0..n {
                announce(i, 10_000 + (round as u32) * 100_000 + i as u32);
            }
        }
        *run.out.applied.entry("announce").or_insert(0) += n as u64;
        // let the session task run into the full socket before more changes arrive
        r.wait_unread_stable().await;
        let mut k = 0u64;
        for i in (0..n).step_by(3) {
            withdraw(i);
            k += 1;
        }
        *run.out.applied.entry("withdraw").or_insert(0) += k;
        k = 0;
        for i in (1..n).step_by(3) {
            announce(i, 50_000 + (round as u32) * 100_000 + i as u32);
            k += 1;
        }
        *run.out.applied.entry("announce").or_insert(0) += k;
        match rng.below(5) {
            0 => {
                let o = Op::ExportPolicy { idx: rng.usize(4) };
                if env.rib.apply(&o) {
                    run.note(&o);
                }
            }
            1 => {
                let o = Op::PeerDown {
                    peer: 1 + rng.usize(3),
                };
                if env.rib.apply(&o) {
                    run.note(&o);
                }
            }
            2 => {
                run.wire_op(&mut r, &Op::RouteRefresh).await?;
            }
            3 => {
                let o = Op::NhFlap {
                    nh: rng.usize(2),
                    reachable: false,
                };
                if env.rib.apply(&o) {
                    run.note(&o);
                }
            }
            _ => {}
        }
        // ---- the remote end reads again
        let queued = r.wait_unread_stable().await;
        let snd_cap = r.snd_cap;
        env.barrier(&mut r, false).await?;
        run.out.barriers += 1;
        let got = r.st.bytes - before;
        run.out.stall_bytes += got;
        if got > queued + snd_cap {
            // the receive queue had stopped growing and yet more was to come than the
            // daemon's send queue can hold: its flush was waiting for the socket (or
            // changes were still queued behind that flush)
            run.out.stall_blocked += 1;
        }
        r = run.check(r).await?;
        if round == 0 {
            // second round: everything goes away again, unread
            let o = Op::NhFlap {
                nh: 0,
                reachable: true,
            };
            if env.rib.apply(&o) {
                run.note(&o);
            }
            let o = Op::NhFlap {
                nh: 1,
                reachable: true,
            };
            if env.rib.apply(&o) {
                run.note(&o);
            }
            let mut k = 0u64;
            for i in 0..n {
                if rng.chance(2, 3) {
                    withdraw(i);
                    k += 1;
                }
            }
            *run.out.applied.entry("withdraw").or_insert(0) += k;
            env.barrier(&mut r, false).await?;
            run.out.barriers += 1;
            r = run.check(r).await?;
        }
    }
    let st = env.close(r).await?;
    run.out.wire.add(&st);
    Ok(())
}

async fn run_history(
    cfg: &Cfg,
    ops: &[Op],
    seed: u64,
    l4: &TcpListener,
    l6: Option<&TcpListener>,
    wd_s: u64,
) -> Outcome {
    let (listener, addr) = if cfg.obs.v6 {
        match l6 {
            Some(l) => (l, IpAddr::V6(Ipv6Addr::LOCALHOST)),
            None => {
                return Outcome {
                    fail: Some(Fail::Harness("no IPv6 loopback".into())),
                    ..Default::default()
                };
            }
        }
    } else {
        (l4, IpAddr::V4(Ipv4Addr::LOCALHOST))
    };
    let env = match Env::new(cfg, addr, std::time::Duration::from_secs(wd_s)) {
        Ok(e) => e,
        Err(f) => {
            return Outcome {
                fail: Some(f),
                ..Default::default()
            };
        }
    };
    let mut run = Run {
        env: &env,
        listener,
        out: Outcome {
            eager: cfg.eager_open,
            ..Default::default()
        },
        epoch: Vec::new(),
        epoch_has_refresh: false,
    };
    let mixed_conc = cfg.obs.concurrent && cfg.shape == Shape::Mixed;
    if mixed_conc {
        crate::verif_hooks::install(fnv64(format!("{:?}", ops).as_bytes()), 60);
    }
    let res = match cfg.shape {
        Shape::Mixed => run_mixed(&mut run, ops).await,
        Shape::Stall => run_stall(&mut run, seed).await,
        Shape::Idle => Err(Fail::Harness("the idle shape has its own driver".into())),
    };
    if mixed_conc {
        let (hits, _) = crate::verif_hooks::uninstall();
        run.out.sched_hits += hits;
    }
    let mut out = run.out;
    out.us_open = env.us[0].load(Ordering::Relaxed);
    out.us_barrier = env.us[1].load(Ordering::Relaxed);
    out.us_close = env.us[2].load(Ordering::Relaxed);
    if let Err(f) = res {
        if out.mismatch.is_none() {
            out.fail = Some(f);
        }
    }
    if matches!(out.fail, Some(Fail::Closed { .. })) {
        // a connection that went away because the session task panicked
        if let Some((loc, msg)) = LAST_PANIC.lock().unwrap().take() {
            if loc.starts_with("daemon/") || loc.starts_with("table/") || loc.starts_with("packet/")
            {
                out.fail = Some(Fail::Panic { loc, msg });
            }
        }
    }
    out
}

/// one round of the keepalive history; gives the session back (possibly a new one)
async fn idle_round(run: &mut Run<'_>, mut r: Remote, rng: &mut Rng) -> Result<Remote, Fail> {
    let env = run.env;
    // ---- silence: only KEEPALIVEs travel, ours every 100-300 ms (hold time 3 s)
    let ka0 = r.st.keepalives;
    let quiet_ms = rng.range(700, 1400);
    let t0 = std::time::Instant::now();
    while (t0.elapsed().as_millis() as u64) < quiet_ms {
        let ms = rng.range(100, 300);
        tokio::time::sleep(std::time::Duration::from_millis(ms)).await;
        r.send(&[bgp::Message::Keepalive], "mid-history").await?;
        r.sip()?;
        if r.notif.is_some() {
            return Err(Fail::Closed {
                stage: "mid-history",
                notif: r.notif,
            });
        }
    }
    // ---- a few operations across the moment the KEEPALIVE timer fires
    let nops = rng.range(3, 14) as usize;
    let ops = base::gen_ops(rng, &env.cfg.obs, nops);
    for o in &ops {
        match o {
            Op::Deliver { .. } | Op::Flush | Op::Check => {
                let ms = rng.range(1, 40);
                tokio::time::sleep(std::time::Duration::from_millis(ms)).await;
                r.sip()?;
            }
            o if is_wire_op(o) => run.wire_op(&mut r, o).await?,
            o => {
                if env.rib.apply(o) {
                    run.note(o);
                }
            }
        }
    }
    env.barrier(&mut r, false).await?;
    run.out.barriers += 1;
    run.out.keepalives_mid_session += r.st.keepalives - ka0;
    if rng.chance(2, 3) {
        r = run.check(r).await?;
    }
    Ok(r)
}

/// The keepalive history: hold time 3 s (KEEPALIVE every second), rounds of
/// [silence until the daemon's KEEPALIVE is due, a few operations, quiescent point,
/// judged restart].  Runs next to the other histories of the shard, on its own RIB.
async fn run_idle(
    cfg: Cfg,
    seed: u64,
    stop: Arc<AtomicBool>,
    max_rounds: u64,
    wd_s: u64,
) -> Outcome {
    let addr = IpAddr::V4(Ipv4Addr::LOCALHOST);
    let listener = match crate::verif_hooks::bind_retry("127.0.0.1:0".parse().unwrap()).await {
        Ok(l) => l,
        Err(e) => {
            return Outcome {
                fail: Some(Fail::Harness(format!("bind: {}", e))),
                ..Default::default()
            };
        }
    };
    let env = match Env::new(&cfg, addr, std::time::Duration::from_secs(wd_s)) {
        Ok(e) => e,
        Err(f) => {
            return Outcome {
                fail: Some(f),
                ..Default::default()
            };
        }
    };
    let mut run = Run {
        env: &env,
        listener: &listener,
        out: Outcome::default(),
        epoch: Vec::new(),
        epoch_has_refresh: false,
    };
    let mut rng = Rng::new(seed ^ 0x1d1e);
    let res: Result<(), Fail> = async {
        let mut cur: Option<Remote> = None;
        while !stop.load(Ordering::Relaxed) && run.out.idle_rounds < max_rounds {
            let r = match cur.take() {
                Some(r) => r,
                None => {
                    let mut r = env.open_session(&listener).await?;
                    run.out.sessions += 1;
                    env.barrier(&mut r, true).await?;
                    run.out.barriers += 1;
                    run.epoch.clear();
                    run.epoch_has_refresh = false;
                    r
                }
            };
            run.out.idle_rounds += 1;
            match idle_round(&mut run, r, &mut rng).await {
                Ok(r) => cur = Some(r),
                Err(Fail::Closed {
                    notif: Some((4, _)),
                    ..
                }) if run.out.mismatch.is_none() && run.out.hold_timer_expiries < 5 => {
                    // hold time 3 s on a loaded box: our KEEPALIVEs came too late.  That
                    // session is gone and nothing about it is judged; go on with a new one.
                    run.out.hold_timer_expiries += 1;
                }
                Err(e) => return Err(e),
            }
        }
        if let Some(r) = cur {
            let st = env.close(r).await?;
            run.out.wire.add(&st);
        }
        Ok(())
    }
    .await;
    let mut out = run.out;
    out.us_open = env.us[0].load(Ordering::Relaxed);
    out.us_barrier = env.us[1].load(Ordering::Relaxed);
    out.us_close = env.us[2].load(Ordering::Relaxed);
    if let Err(f) = res {
        if out.mismatch.is_none() {
            out.fail = Some(f);
        }
    }
    if matches!(out.fail, Some(Fail::Closed { .. })) {
        // a connection that went away because the session task panicked
        if let Some((loc, msg)) = LAST_PANIC.lock().unwrap().take() {
            if loc.starts_with("daemon/") || loc.starts_with("table/") || loc.starts_with("packet/")
            {
                out.fail = Some(Fail::Panic { loc, msg });
            }
        }
    }
    out
}

fn idle_cfg(rng: &mut Rng) -> Cfg {
    let mut cfg = gen_cfg(rng, false);
    cfg.shape = Shape::Idle;
    cfg.obs.v6 = false;
    cfg.obs.concurrent = false;
    cfg.obs.late_join = false;
    cfg.hold = 3;
    cfg.small_buffers = false;
    cfg.prepopulate = 0;
    cfg
}

// ------------------------------------------------------------------ driver

fn gen_history(rng: &mut Rng, thorough: bool) -> (Cfg, Vec<Op>, u64) {
    let mut cfg = gen_cfg(rng, thorough);
    let len = rng.range(4, if thorough { 100 } else { 50 }) as usize;
    let mut ops = base::gen_ops(rng, &cfg.obs, len);
    // the by-hand histories end with one check; here sessions are cheap enough to judge
    // more often, which keeps a later operation from healing an earlier divergence
    let extra = rng.below(4) as usize;
    for _ in 0..extra {
        let at = rng.usize(ops.len());
        ops.insert(at, Op::Check);
    }
    cfg.obs.late_join = cfg.obs.concurrent
        && cfg.shape == Shape::Mixed
        && fnv64(format!("{:?}", ops).as_bytes()) % 2 == 0;
    let seed = rng.next_u64();
    (cfg, ops, seed)
}

fn ops_json(ops: &[Op]) -> Json {
    Json::strs(ops.iter().map(|o| format!("{:?}", o)))
}

fn stage_of(f: &Fail) -> String {
    match f {
        Fail::Stuck { stage, .. } | Fail::Lost { stage, .. } => format!("no-progress:{}", stage),
        Fail::Closed { stage, notif } => format!("closed:{}:{:?}", stage, notif),
        Fail::Panic { loc, .. } => format!("panic:{}", loc),
        Fail::Decode(_) => "decode".into(),
        Fail::Harness(_) => "harness".into(),
    }
}

fn count_outcome(rep: &mut Report, cfg: &Cfg, out: &Outcome) {
    rep.eval();
    rep.count("e2e:histories");
    rep.count_n("e2e:epochs-judged", out.epochs);
    rep.count_n("e2e:barriers", out.barriers);
    rep.count_n("e2e:sessions", out.sessions);
    rep.count_n("e2e:update-frames-read", out.wire.updates);
    rep.count_n("e2e:frames-read", out.wire.frames);
    rep.count_n("e2e:bytes-read", out.wire.bytes);
    rep.count_n("e2e:routes-compared", out.routes_compared);
    rep.count_n("e2e:withdrawals-on-the-wire", out.wire.withdrawals);
    rep.count_n("e2e:replacements-on-the-wire", out.wire.replacements);
    rep.count_n(
        "e2e:readvertisements-on-the-wire",
        out.wire.readvertisements,
    );
    rep.count_n("e2e:keepalives-read", out.wire.keepalives);
    rep.count_n("e2e:end-of-rib-read", out.wire.eors);
    rep.count_n("e2e:route-refresh-round-trips", out.rr_round_trips);
    rep.count_n("e2e:updates-sent-by-the-neighbour", out.wire_announces);
    rep.count_n("e2e:frames-with-attribute-errors", out.wire.attr_errors);
    rep.count_n(
        "unjudged:e2e:withdrawal-of-a-route-the-view-did-not-hold",
        out.wire.withdraw_of_unknown,
    );
    rep.max("e2e:routes-in-one-comparison", out.max_epoch_routes);
    rep.count_n("cost:e2e:ms-in-session-setup", out.us_open / 1000);
    rep.count_n("cost:e2e:ms-in-barriers", out.us_barrier / 1000);
    rep.count_n("cost:e2e:ms-in-session-end", out.us_close / 1000);
    for (k, v) in &out.applied {
        rep.count_n(&format!("e2e:op:{}", k), *v);
    }
    rep.count(&format!("e2e:role:{:?}", cfg.obs.role));
    rep.count(&format!("e2e:branch:{}", branch(cfg)));
    rep.count(&format!("e2e:shards:{}", cfg.obs.shards));
    rep.count(if cfg.eager_open {
        "e2e:handshake:open+keepalive-at-once"
    } else {
        "e2e:handshake:keepalive-after-the-daemons-open"
    });
    if cfg.obs.v6 {
        rep.count("e2e:ipv6-sessions");
    }
    if cfg.chatty {
        rep.count("e2e:histories-with-keepalives-from-the-neighbour");
    }
    if cfg.per_peer_policy {
        rep.count("e2e:histories-with-per-neighbour-export-policy");
    }
    if cfg.shape == Shape::Stall {
        rep.count("e2e:histories-stall");
        rep.count_n("e2e:stall-rounds-with-blocked-flush", out.stall_blocked);
        rep.count_n("e2e:stall-bytes", out.stall_bytes);
    }
    if cfg.shape == Shape::Idle {
        rep.count("e2e:histories-keepalive");
        rep.count_n("e2e:keepalive-rounds", out.idle_rounds);
        rep.count_n(
            "e2e:keepalives-from-the-daemon-mid-session",
            out.keepalives_mid_session,
        );
        rep.count_n(
            "unjudged:e2e:hold-timer-expired-under-load",
            out.hold_timer_expiries,
        );
    }
    if cfg.obs.concurrent {
        rep.count("e2e:histories-concurrent");
        rep.count_n("e2e:concurrent-bursts", out.bursts);
        rep.count_n("e2e:sched-point-hits", out.sched_hits);
        rep.count_n("e2e:late-joins", out.late_joins);
        rep.count_n(
            "e2e:late-joins-overlapping-a-burst",
            out.late_joins_overlapped,
        );
    }
}

/// What to do with a run that ended without a judgement.  `rerun` executes the same
/// history once more, alone, with a longer watchdog.  Returns true when a no-progress /
/// silent-close violation was recorded.
fn report_fail<R: FnMut() -> Outcome>(
    rep: &mut Report,
    params: &Params,
    cfg: &Cfg,
    ops: &[Op],
    hist_idx: u64,
    f: &Fail,
    mut rerun: R,
) -> bool {
    match f {
        Fail::Panic { loc, msg } => {
            rep.violation(
                &format!("C01/panic/{}:{}", loc, panic_class(msg)),
                &format!("the session task panicked: {}", msg),
                Json::obj(vec![
                    ("config", Json::s(format!("{:?}", cfg))),
                    ("ops", ops_json(ops)),
                    ("shard_seed", Json::Int(params.seed as i128)),
                    ("history_index", Json::Int(hist_idx as i128)),
                ]),
            );
            false
        }
        Fail::Decode(e) => {
            rep.inconclusive(&format!("harness error: Decode({})", e));
            false
        }
        Fail::Harness(e) => {
            rep.inconclusive(&format!("harness error: {}", e));
            false
        }
        Fail::Closed {
            notif: Some((4, _)),
            ..
        } if cfg.hold > 0 && cfg.hold <= 3 => {
            // hold time 3 s and a loaded box: the remote end's KEEPALIVEs came too late.
            // Nothing was judged and nothing is claimed; floors see to it that enough
            // keepalive rounds are observed.
            rep.count("unjudged:e2e:hold-timer-expired-under-load");
            false
        }
        Fail::Closed {
            notif: Some((code, sub)),
            stage,
        } => {
            // the daemon said why: a hold timer or a complaint about what the scripted
            // remote end sent -- neither is this property's business
            rep.inconclusive(&format!(
                "the daemon ended the session with NOTIFICATION {}/{} at {}",
                code, sub, stage
            ));
            false
        }
        Fail::Stuck { .. } | Fail::Lost { .. } | Fail::Closed { notif: None, .. } => {
            // No progress / silent close.  A violation only if it is not the box: the
            // same history, alone, with a longer watchdog, must do it again.
            let first = stage_of(f);
            rep.count("e2e:reruns-after-no-progress");
            let again = rerun();
            let second = again.fail.as_ref().map(stage_of);
            if second.as_deref() == Some(first.as_str()) {
                let (sig, what, detail) = match f {
                    Fail::Stuck { stage, detail } => (
                        format!("C01/e2e/no-progress/{}", stage),
                        format!(
                            "the connection is open and the session task runs, but `{}` never completes: what the RIB holds for the neighbour is not put on the wire (reproduced when the history was re-run alone with a longer watchdog)",
                            stage
                        ),
                        detail.clone(),
                    ),
                    Fail::Lost { stage, detail } => (
                        format!("C01/e2e/lost-update/{}", stage),
                        format!(
                            "a change of the RIB (`{}` of the sentinel prefix) was never put on the wire for the neighbour although the session delivers later changes (reproduced when the history was re-run alone with a longer watchdog)",
                            stage
                        ),
                        detail.clone(),
                    ),
                    Fail::Closed { stage, .. } => (
                        format!("C01/e2e/session-closed-by-daemon/{}", stage),
                        format!(
                            "the daemon closed the neighbour's connection without a NOTIFICATION although the remote end only sent valid messages and kept the connection open (at `{}`; reproduced when the history was re-run alone)",
                            stage
                        ),
                        String::new(),
                    ),
                    _ => unreachable!(),
                };
                rep.violation(
                    &sig,
                    &what,
                    Json::obj(vec![
                        ("config", Json::s(format!("{:?}", cfg))),
                        ("ops", ops_json(ops)),
                        ("detail", Json::s(detail)),
                        ("shard_seed", Json::Int(params.seed as i128)),
                        ("history_index", Json::Int(hist_idx as i128)),
                        ("rerun", Json::s(format!("{:?}", again.fail))),
                    ]),
                );
                true
            } else {
                rep.inconclusive(&format!(
                    "watchdog / connection loss that did not reproduce when the history was re-run alone: first {}, then {:?}",
                    first, second
                ));
                false
            }
        }
    }
}

#[test]
fn run() {
    let params = Params::from_args_env();
    let mut rep = Report::new("C01", &params);
    install_panic_hook();
    if params.flag("trace") {
        TRACE.store(true, Ordering::Relaxed);
    }
    let rt = tokio::runtime::Builder::new_multi_thread()
        .worker_threads(3)
        .enable_all()
        .build()
        .expect("runtime");
    let mut rng = Rng::new(params.seed ^ 0xC01E);
    let l4 = match rt.block_on(crate::verif_hooks::bind_retry(
        "127.0.0.1:0".parse().unwrap(),
    )) {
        Ok(l) => l,
        Err(e) => {
            rep.inconclusive(&format!("cannot bind a loopback listener: {}", e));
            let _ = rep.finish();
            return;
        }
    };
    let l6 = rt
        .block_on(crate::verif_hooks::bind_retry("[::1]:0".parse().unwrap()))
        .ok();
    if l6.is_none() {
        rep.count("e2e:ipv6-loopback-unavailable");
    }
    let n = params.n(320, 200000);
    let only = params.get("only").and_then(|s| s.parse::<u64>().ok());
    // ---- the keepalive history runs next to the others for the whole budget
    let idle_stop = Arc::new(AtomicBool::new(false));
    let mut idle_rng = Rng::new(params.seed ^ 0x1d1e_c01e);
    let icfg = idle_cfg(&mut idle_rng);
    let iseed = idle_rng.next_u64();
    let idle_task = if only.is_none() && !params.flag("noidle") {
        Some(rt.spawn(run_idle(
            icfg.clone(),
            iseed,
            idle_stop.clone(),
            u64::MAX,
            WATCHDOG_S,
        )))
    } else {
        None
    };
    let mut no_progress = 0;
    for hist_idx in 0..n {
        if !rep.in_budget() {
            break;
        }
        let (mut cfg, ops, hseed) = gen_history(&mut rng, params.thorough());
        if cfg.obs.v6 && l6.is_none() {
            cfg.obs.v6 = false;
        }
        if let Some(o) = only {
            if o != hist_idx {
                continue;
            }
        }
        if trace() {
            eprintln!("== history {} config {:?}", hist_idx, cfg);
        }
        let out = rt.block_on(run_history(&cfg, &ops, hseed, &l4, l6.as_ref(), WATCHDOG_S));
        count_outcome(&mut rep, &cfg, &out);
        if out.wire.withdrawals > 0 && out.wire.replacements > 0 {
            rep.nontrivial(fnv64(format!("e2e{:?}{:?}", cfg, ops).as_bytes()));
            rep.count("e2e:histories-nontrivial");
        }
        // ---------------------------------------------------------------- no judgement
        if let Some(f) = &out.fail {
            let stuck = report_fail(&mut rep, &params, &cfg, &ops, hist_idx, f, || {
                rt.block_on(run_history(
                    &cfg,
                    &ops,
                    hseed,
                    &l4,
                    l6.as_ref(),
                    RERUN_WATCHDOG_S,
                ))
            });
            if stuck {
                no_progress += 1;
                // further histories would spend their watchdogs the same way
                if no_progress >= 3 || matches!(f, Fail::Stuck { .. }) {
                    break;
                }
            }
            continue;
        }
        // ---------------------------------------------------------------- mismatches
        let Some(m) = out.mismatch else {
            if rep.want_sample() && out.epochs > 0 && out.routes_compared > 0 {
                rep.sample(Json::obj(vec![
                    ("part", Json::s("e2e")),
                    ("config", Json::s(format!("{:?}", cfg))),
                    ("ops", ops_json(&ops[..ops.len().min(25)])),
                    ("epochs_judged", Json::Int(out.epochs as i128)),
                    ("routes_compared", Json::Int(out.routes_compared as i128)),
                    ("update_frames_read", Json::Int(out.wire.updates as i128)),
                    (
                        "withdrawals_on_the_wire",
                        Json::Int(out.wire.withdrawals as i128),
                    ),
                ]));
            }
            continue;
        };
        rep.count("e2e:mismatches");
        if m.known_pattern {
            rep.violation(
                KNOWN_SIG,
                "Add-Path neighbour lacks a prefix that was removed and re-created while a route refresh / soft reset out ran ahead of the queued removal + creation events (seen through the real session loop)",
                Json::obj(vec![
                    ("part", Json::s("e2e")),
                    ("config", Json::s(format!("{:?}", cfg))),
                    ("epoch_ops", Json::strs(m.epoch_ops.clone())),
                    ("differences", Json::strs(m.detail.clone())),
                    ("wire", Json::strs(m.wire_logs.clone())),
                    ("shard_seed", Json::Int(params.seed as i128)),
                    ("history_index", Json::Int(hist_idx as i128)),
                ]),
            );
            continue;
        }
        // how often does it come back?  (the session task's schedule is not under control)
        let mut seq = cfg.clone();
        let was_concurrent = cfg.obs.concurrent && cfg.shape == Shape::Mixed;
        seq.obs.concurrent = false;
        seq.obs.late_join = false;
        let tries = 4;
        let mut again_seq = 0;
        let mut last: Option<Mismatch> = None;
        for _ in 0..tries {
            let o = rt.block_on(run_history(&seq, &ops, hseed, &l4, l6.as_ref(), WATCHDOG_S));
            if let Some(g) = o.mismatch {
                if g.kind == m.kind {
                    again_seq += 1;
                    last = Some(g);
                }
            }
        }
        let replay = format!(
            "VERIF_SEED={} VERIF_TIER={} VERIF_ONLY={} VERIF_TRACE=1 <e2 test binary> event::verif::c01e::run --exact --nocapture",
            params.seed, params.tier, hist_idx
        );
        if again_seq >= 2 && cfg.shape == Shape::Mixed {
            // stable enough to shrink: drop operations while the same kind of difference
            // remains (a candidate gets several runs: the session task's schedule varies)
            let mut cur: Vec<Op> = ops.clone();
            let started = std::time::Instant::now();
            let mut budget = 400;
            let fails = |cand: &[Op], budget: &mut i32| -> Option<Mismatch> {
                for _ in 0..4 {
                    *budget -= 1;
                    let o =
                        rt.block_on(run_history(&seq, cand, hseed, &l4, l6.as_ref(), WATCHDOG_S));
                    if o.fail.is_some() {
                        return None;
                    }
                    if let Some(g) = o.mismatch {
                        if g.kind == m.kind {
                            return Some(g);
                        }
                    }
                }
                None
            };
            loop {
                let before = cur.len();
                // from the end: what follows the culprit goes first
                let mut i = cur.len();
                while i > 0 && budget > 0 && started.elapsed().as_secs() < 30 {
                    i -= 1;
                    let mut cand = cur.clone();
                    cand.remove(i);
                    if !cand.iter().any(|o| matches!(o, Op::Check)) {
                        continue;
                    }
                    if let Some(g) = fails(&cand, &mut budget) {
                        cur = cand;
                        last = Some(g);
                    }
                }
                if cur.len() == before || budget <= 0 || started.elapsed().as_secs() >= 30 {
                    break;
                }
            }
            let fin = last.unwrap_or(m.clone());
            let sig = if fin.known_pattern {
                KNOWN_SIG.to_string()
            } else {
                format!(
                    "C01/e2e/{}/{}/{}",
                    fin.kind,
                    branch(&cfg),
                    fin.last_source_op
                )
            };
            rep.violation(
                &sig,
                &format!(
                    "after quiescence the neighbour's Adj-RIB-In (folded from the bytes the real session loop wrote) differs from what a brand-new session is sent ({}; last source operation of the minimal history: {})",
                    fin.kind, fin.last_source_op
                ),
                Json::obj(vec![
                    ("config", Json::s(format!("{:?}", seq))),
                    ("minimal_ops", ops_json(&cur)),
                    ("differences", Json::strs(fin.detail.clone())),
                    ("wire", Json::strs(fin.wire_logs.clone())),
                    ("failing_epoch_ops", Json::strs(fin.epoch_ops.clone())),
                    ("original_len", Json::Int(ops.len() as i128)),
                    (
                        "reproduced",
                        Json::s(format!("{}/{} sequential re-runs", again_seq, tries)),
                    ),
                    ("shard_seed", Json::Int(params.seed as i128)),
                    ("history_index", Json::Int(hist_idx as i128)),
                    ("replay", Json::s(replay)),
                ]),
            );
        } else {
            let mut again_conc = 0;
            if was_concurrent {
                for _ in 0..tries {
                    let o =
                        rt.block_on(run_history(&cfg, &ops, hseed, &l4, l6.as_ref(), WATCHDOG_S));
                    if o.mismatch.as_ref().is_some_and(|g| g.kind == m.kind) {
                        again_conc += 1;
                    }
                }
            }
            let trigger = if was_concurrent && again_seq == 0 {
                "concurrent-only"
            } else if cfg.shape == Shape::Stall {
                "burst-into-a-full-socket"
            } else {
                "schedule-dependent"
            };
            rep.violation(
                &format!(
                    "C01/e2e/{}/{}/{}{}",
                    m.kind,
                    branch(&cfg),
                    trigger,
                    if cfg.obs.late_join {
                        "/session-up-during-burst"
                    } else {
                        ""
                    }
                ),
                &format!(
                    "after quiescence the neighbour's Adj-RIB-In (folded from the bytes the real session loop wrote) differs from what a brand-new session is sent ({})",
                    m.kind
                ),
                Json::obj(vec![
                    ("config", Json::s(format!("{:?}", cfg))),
                    ("ops", ops_json(&ops)),
                    ("failing_epoch_ops", Json::strs(m.epoch_ops.clone())),
                    ("differences", Json::strs(m.detail.clone())),
                    ("wire", Json::strs(m.wire_logs.clone())),
                    (
                        "reproduced",
                        Json::s(format!(
                            "{}/{} sequential re-runs, {}/{} concurrent re-runs",
                            again_seq,
                            tries,
                            again_conc,
                            if was_concurrent { tries } else { 0 }
                        )),
                    ),
                    ("shard_seed", Json::Int(params.seed as i128)),
                    ("history_index", Json::Int(hist_idx as i128)),
                    ("replay", Json::s(replay)),
                    ("note", Json::s("schedule-dependent: replay is best-effort")),
                ]),
            );
        }
    }
    // ---------------------------------------------------------------- the keepalive history
    idle_stop.store(true, Ordering::Relaxed);
    if let Some(t) = idle_task {
        match rt.block_on(async {
            tokio::time::timeout(std::time::Duration::from_secs(3 * WATCHDOG_S), t).await
        }) {
            Ok(Ok(out)) => {
                count_outcome(&mut rep, &icfg, &out);
                if let Some(f) = &out.fail {
                    let rounds = out.idle_rounds.max(2);
                    report_fail(&mut rep, &params, &icfg, &[], u64::MAX, f, || {
                        rt.block_on(run_idle(
                            icfg.clone(),
                            iseed,
                            Arc::new(AtomicBool::new(false)),
                            rounds,
                            RERUN_WATCHDOG_S,
                        ))
                    });
                } else if let Some(m) = out.mismatch {
                    rep.count("e2e:mismatches");
                    let sig = if m.known_pattern {
                        KNOWN_SIG.to_string()
                    } else {
                        format!("C01/e2e/{}/{}/keepalive-interleaved", m.kind, branch(&icfg))
                    };
                    rep.violation(
                        &sig,
                        &format!(
                            "after quiescence the neighbour's Adj-RIB-In differs from what a brand-new session is sent ({}), in the history whose silences let the KEEPALIVE timer fire",
                            m.kind
                        ),
                        Json::obj(vec![
                            ("config", Json::s(format!("{:?}", icfg))),
                            ("failing_epoch_ops", Json::strs(m.epoch_ops.clone())),
                            ("differences", Json::strs(m.detail.clone())),
                            ("wire", Json::strs(m.wire_logs.clone())),
                            ("shard_seed", Json::Int(params.seed as i128)),
                            ("idle_seed", Json::Int(iseed as i128)),
                            ("note", Json::s("schedule-dependent: replay is best-effort")),
                        ]),
                    );
                }
            }
            Ok(Err(_)) => rep.inconclusive("the keepalive history's task ended abnormally"),
            Err(_) => rep.inconclusive("watchdog: the keepalive history did not stop"),
        }
    }
    let _ = rep.finish();
}
